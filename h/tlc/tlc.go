// Package tlc uses TLC as a step oracle: the specification's own next-state relation
// (read from /repo at check time) is evaluated as a predicate on consecutive pairs of
// states recorded by the simulator. TLC explores nothing: the only behaviours are the
// recorded traces.
package tlc

import (
	"bytes"
	"fmt"
	"os"
	"os/exec"
	"path/filepath"
	"regexp"
	"sort"
	"strconv"
	"strings"

	"github.com/DistCompiler/pgo/distsys/tla"
)

// Render prints a value as a TLA+ expression, independently of tla.Value.String.
func Render(v tla.Value) string {
	if v == (tla.Value{}) {
		return "defaultInitValue"
	}
	v = v.StripVClock()
	switch {
	case v.IsBool():
		if v.AsBool() {
			return "TRUE"
		}
		return "FALSE"
	case v.IsNumber():
		n := v.AsNumber()
		if n < 0 {
			return "(" + strconv.Itoa(int(n)) + ")"
		}
		return strconv.Itoa(int(n))
	case v.IsString():
		return strconv.Quote(v.AsString())
	case v.IsSet():
		var xs []string
		it := v.AsSet().Iterator()
		for !it.Done() {
			k, _, _ := it.Next()
			xs = append(xs, Render(k))
		}
		sort.Strings(xs)
		return "{" + strings.Join(xs, ", ") + "}"
	case v.IsTuple():
		var xs []string
		it := v.AsTuple().Iterator()
		for !it.Done() {
			_, e := it.Next()
			xs = append(xs, Render(e))
		}
		return "<<" + strings.Join(xs, ", ") + ">>"
	case v.IsFunction():
		fn := v.AsFunction()
		if fn.Len() == 0 {
			return "<<>>"
		}
		var xs []string
		it := fn.Iterator()
		for !it.Done() {
			k, e, _ := it.Next()
			xs = append(xs, "("+Render(k)+" :> "+Render(e)+")")
		}
		sort.Strings(xs)
		return "(" + strings.Join(xs, " @@ ") + ")"
	}
	// model values and anything else: fall back to the library's rendering
	return v.String()
}

// State is one recorded spec state: variable name -> TLA+ expression.
type State map[string]string

// Trace is the state sequence of one simulated run of one system.
type Trace struct {
	Run    uint64
	States []State
	Steps  []string // description of the step leading to States[i] (i>=1), for reports
}

// System describes how to check traces of one spec.
type System struct {
	Name     string                   // module name, e.g. "locksvc"
	SpecPath string                   // absolute path of the .tla file in /repo
	Vars     []string                 // all variables of the translation, in the order of `vars`
	Consts   map[string]string        // CONSTANT assignments for the cfg (model values: name = name)
	Rewrite  func(spec string) string // optional scratch-copy rewrite (e.g. CHOOSE -> existential), listed in evidence
	Extra    string                   // extra definitions appended to the trace module
	// Retranslate: the shipped TLA+ translation is stale with respect to the file's own PlusCal
	// algorithm (the block PGo generated together with the Go code): run the PlusCal translator
	// (pcal, tla2tools) on the scratch copy first, so Next is the translation of that algorithm
	Retranslate bool
}

type Verdict struct {
	TraceIdx int
	Step     int // index of the offending state in the trace (transition Step-1 -> Step), 0 = initial state
	Output   string
	// EvalError: TLC could not evaluate the spec's Next on this recorded pair (e.g. a function
	// applied outside its domain with the recorded successor's values): no step of the spec
	// produces that successor from a state the spec had accepted so far
	EvalError bool
}

var reTI = regexp.MustCompile(`/\\ ti = (\d+)`)
var reTR = regexp.MustCompile(`/\\ tr = (\d+)`)

// Check runs TLC on the traces. It returns nil if every initial state satisfies Init
// and every transition satisfies Next (or stutters).
func Check(sys System, traces []Trace, workDir string) (*Verdict, string, error) {
	if len(traces) == 0 {
		return nil, "", nil
	}
	if err := os.MkdirAll(workDir, 0o755); err != nil {
		return nil, "", err
	}
	spec, err := os.ReadFile(sys.SpecPath)
	if err != nil {
		return nil, "", err
	}
	text := string(spec)
	if sys.Rewrite != nil {
		text = sys.Rewrite(text)
	}
	if err := os.WriteFile(filepath.Join(workDir, sys.Name+".tla"), []byte(text), 0o644); err != nil {
		return nil, "", err
	}
	if sys.Retranslate {
		pc := exec.Command("java", "-XX:+UseSerialGC", "-XX:TieredStopAtLevel=1", "-cp", "/opt/veriftools/tla/tla2tools.jar", "pcal.trans", "-nocfg", sys.Name+".tla")
		pc.Dir = workDir
		if o, err := pc.CombinedOutput(); err != nil || !strings.Contains(string(o), "Translation completed") {
			return nil, string(o), fmt.Errorf("pcal translation of %s failed: %v", sys.Name, err)
		}
	}
	mod := sys.Name + "_trace"
	var b strings.Builder
	fmt.Fprintf(&b, "---- MODULE %s ----\nEXTENDS %s, TLC\n\n", mod, sys.Name)
	b.WriteString("T == <<\n")
	for ti, tr := range traces {
		if ti > 0 {
			b.WriteString(",\n")
		}
		b.WriteString(" <<\n")
		for si, st := range tr.States {
			if si > 0 {
				b.WriteString(",\n")
			}
			b.WriteString("  [")
			for vi, v := range sys.Vars {
				if vi > 0 {
					b.WriteString(", ")
				}
				e, ok := st[v]
				if !ok {
					return nil, "", fmt.Errorf("trace state lacks spec variable %q (binding table incomplete)", v)
				}
				fmt.Fprintf(&b, "v_%s |-> %s", v, e)
			}
			b.WriteString("]")
		}
		b.WriteString("\n >>")
	}
	b.WriteString("\n>>\n\nVARIABLES tr, ti, ok\n\n")
	b.WriteString("TInit == /\\ tr \\in 1..Len(T)\n         /\\ ti = 1\n")
	for _, v := range sys.Vars {
		fmt.Fprintf(&b, "         /\\ %s = T[tr][1].v_%s\n", v, v)
	}
	b.WriteString("         /\\ ok = Init\n\n")
	b.WriteString("TNext == /\\ ti < Len(T[tr])\n         /\\ tr' = tr\n         /\\ ti' = ti + 1\n")
	for _, v := range sys.Vars {
		fmt.Fprintf(&b, "         /\\ %s' = T[tr][ti+1].v_%s\n", v, v)
	}
	b.WriteString("         /\\ ok' = (Next \\/ UNCHANGED vars)\n\n")
	b.WriteString("TInv == ok\n")
	b.WriteString(sys.Extra)
	b.WriteString("\n====\n")
	if err := os.WriteFile(filepath.Join(workDir, mod+".tla"), []byte(b.String()), 0o644); err != nil {
		return nil, "", err
	}
	var cfg strings.Builder
	cfg.WriteString("INIT TInit\nNEXT TNext\nINVARIANT TInv\nCHECK_DEADLOCK FALSE\nCONSTANTS\n")
	names := make([]string, 0, len(sys.Consts))
	for k := range sys.Consts {
		names = append(names, k)
	}
	sort.Strings(names)
	for _, k := range names {
		fmt.Fprintf(&cfg, "  %s = %s\n", k, sys.Consts[k])
	}
	if err := os.WriteFile(filepath.Join(workDir, mod+".cfg"), []byte(cfg.String()), 0o644); err != nil {
		return nil, "", err
	}
	cmd := exec.Command("java", "-XX:+UseSerialGC", "-XX:TieredStopAtLevel=1", "-XX:CICompilerCount=1", "-Xshare:auto", "-Xss16m", "-cp", "/opt/veriftools/tla/tla2tools.jar", "tlc2.TLC",
		"-config", mod+".cfg", "-workers", "1", "-metadir", filepath.Join(workDir, "states"), "-noGenerateSpecTE", mod+".tla")
	cmd.Dir = workDir
	var out bytes.Buffer
	cmd.Stdout = &out
	cmd.Stderr = &out
	runErr := cmd.Run()
	o := out.String()
	if strings.Contains(o, "Invariant TInv is violated") {
		// the last state printed is the offending one
		tis := reTI.FindAllStringSubmatch(o, -1)
		trs := reTR.FindAllStringSubmatch(o, -1)
		if len(tis) == 0 || len(trs) == 0 {
			return nil, o, fmt.Errorf("TLC reported a violation but the trace could not be parsed")
		}
		ti, _ := strconv.Atoi(tis[len(tis)-1][1])
		tr, _ := strconv.Atoi(trs[len(trs)-1][1])
		return &Verdict{TraceIdx: tr - 1, Step: ti - 1, Output: o}, o, nil
	}
	if strings.Contains(o, "Model checking completed. No error has been found") {
		return nil, o, nil
	}
	if strings.Contains(o, "The error occurred when TLC was evaluating the nested") && strings.Contains(o, "The behavior up to this point is") {
		// evaluation of ok' = Next failed while computing the successor of the last printed state
		tis := reTI.FindAllStringSubmatch(o, -1)
		trs := reTR.FindAllStringSubmatch(o, -1)
		if len(tis) > 0 && len(trs) > 0 {
			ti, _ := strconv.Atoi(tis[len(tis)-1][1])
			tr, _ := strconv.Atoi(trs[len(trs)-1][1])
			if tr >= 1 && tr <= len(traces) && ti >= 1 && ti < len(traces[tr-1].States) {
				return &Verdict{TraceIdx: tr - 1, Step: ti, Output: o, EvalError: true}, o, nil
			}
		}
	}
	return nil, o, fmt.Errorf("TLC did not complete (%v)", runErr)
}

// AssertionFails asks TLC whether action(self), evaluated in the last state of the recorded
// trace, runs into a failing assert of the specification (some branch of the action's
// nondeterminism does). It is used when the generated Go reported an assertion failure at
// that label from that state: the specification must fail there too. TLC walks the recorded
// trace (exactly as Check does, so the state is built the way that is known to work) and
// then takes the action.
func AssertionFails(sys System, tr Trace, action, self, workDir string) (bool, string, error) {
	fails, out, err := assertionFails(sys, tr, action+"("+self+")", workDir)
	if err != nil && strings.Contains(out, "requires 0 arguments") {
		// a single process (process (P = Id)): its actions take no self parameter
		os.RemoveAll(workDir)
		return assertionFails(sys, tr, action, workDir)
	}
	return fails, out, err
}

func assertionFails(sys System, tr Trace, actionExpr, workDir string) (bool, string, error) {
	if err := os.MkdirAll(workDir, 0o755); err != nil {
		return false, "", err
	}
	spec, err := os.ReadFile(sys.SpecPath)
	if err != nil {
		return false, "", err
	}
	text := string(spec)
	if sys.Rewrite != nil {
		text = sys.Rewrite(text)
	}
	if err := os.WriteFile(filepath.Join(workDir, sys.Name+".tla"), []byte(text), 0o644); err != nil {
		return false, "", err
	}
	if sys.Retranslate {
		pc := exec.Command("java", "-XX:+UseSerialGC", "-XX:TieredStopAtLevel=1", "-cp", "/opt/veriftools/tla/tla2tools.jar", "pcal.trans", "-nocfg", sys.Name+".tla")
		pc.Dir = workDir
		if o, err := pc.CombinedOutput(); err != nil || !strings.Contains(string(o), "Translation completed") {
			return false, string(o), fmt.Errorf("pcal translation of %s failed: %v", sys.Name, err)
		}
	}
	mod := sys.Name + "_assert"
	var b strings.Builder
	fmt.Fprintf(&b, "---- MODULE %s ----\nEXTENDS %s, TLC\n\n", mod, sys.Name)
	b.WriteString("T == <<\n")
	for si, st := range tr.States {
		if si > 0 {
			b.WriteString(",\n")
		}
		b.WriteString("  [")
		for vi, v := range sys.Vars {
			if vi > 0 {
				b.WriteString(", ")
			}
			e, ok := st[v]
			if !ok {
				return false, "", fmt.Errorf("trace state lacks spec variable %q", v)
			}
			fmt.Fprintf(&b, "v_%s |-> %s", v, e)
		}
		b.WriteString("]")
	}
	b.WriteString("\n>>\n\nVARIABLES ti\n\n")
	b.WriteString("AInit == /\\ ti = 1\n")
	for _, v := range sys.Vars {
		fmt.Fprintf(&b, "         /\\ %s = T[1].v_%s\n", v, v)
	}
	b.WriteString("\nAWalk == /\\ ti < Len(T)\n         /\\ ti' = ti + 1\n")
	for _, v := range sys.Vars {
		fmt.Fprintf(&b, "         /\\ %s' = T[ti+1].v_%s\n", v, v)
	}
	fmt.Fprintf(&b, "\nAAct == /\\ ti = Len(T)\n        /\\ ti' = ti + 1\n        /\\ %s\n", actionExpr)
	b.WriteString("\nANext == AWalk \\/ AAct\n")
	b.WriteString(sys.Extra)
	b.WriteString("\n====\n")
	if err := os.WriteFile(filepath.Join(workDir, mod+".tla"), []byte(b.String()), 0o644); err != nil {
		return false, "", err
	}
	var cfg strings.Builder
	cfg.WriteString("INIT AInit\nNEXT ANext\nCHECK_DEADLOCK FALSE\nCONSTANTS\n")
	names := make([]string, 0, len(sys.Consts))
	for k := range sys.Consts {
		names = append(names, k)
	}
	sort.Strings(names)
	for _, k := range names {
		fmt.Fprintf(&cfg, "  %s = %s\n", k, sys.Consts[k])
	}
	if err := os.WriteFile(filepath.Join(workDir, mod+".cfg"), []byte(cfg.String()), 0o644); err != nil {
		return false, "", err
	}
	cmd := exec.Command("java", "-XX:+UseSerialGC", "-XX:TieredStopAtLevel=1", "-XX:CICompilerCount=1", "-Xshare:auto", "-Xss16m", "-cp", "/opt/veriftools/tla/tla2tools.jar", "tlc2.TLC",
		"-config", mod+".cfg", "-workers", "1", "-metadir", filepath.Join(workDir, "states"), "-noGenerateSpecTE", mod+".tla")
	cmd.Dir = workDir
	var out bytes.Buffer
	cmd.Stdout = &out
	cmd.Stderr = &out
	runErr := cmd.Run()
	o := out.String()
	if strings.Contains(o, "The first argument of Assert evaluated to FALSE") {
		return true, o, nil
	}
	if strings.Contains(o, "Model checking completed. No error has been found") {
		return false, o, nil
	}
	return false, o, fmt.Errorf("TLC did not complete (%v)", runErr)
}
