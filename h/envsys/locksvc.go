// Package envsys wires each shipped system's generated archetypes to the level-A
// environment: the spec's global variables, its mapping macros implemented to the
// letter, and the list of archetype-local variables to snapshot.
package envsys

import (
	"fmt"

	"github.com/DistCompiler/pgo/distsys"
	"github.com/DistCompiler/pgo/distsys/tla"
	"github.com/DistCompiler/pgo/systems/locksvc"

	"verif/env"
	"verif/tlc"
)

// LockSvc: locksvc.tla. Globals: network (function NodeSet -> bag), hasLock.
// mapping macro ReliableLink {
//   read  { await BagCardinality($variable) > 0;
//           with (readMsg \in BagToSet($variable)) { $variable := $variable (-) SetToBag({readMsg}); yield readMsg; } }
//   write { yield $variable (+) SetToBag({$value}); } }
type LockSvc struct {
	WD         *env.World
	NumClients int
	Server     *env.Actor
	Clients    []*env.Actor
	// FIFO: deliver the oldest message of a mailbox instead of any (the per-link FIFO
	// configuration); the spec's bag allows any order.
	FIFO   bool
	arrive map[string][]tla.Value // per mailbox: arrival order, for the FIFO configuration
	pendingPop, pendingPush []pop
}

func NewLockSvc(wd *env.World, numClients int, fifo bool) *LockSvc {
	s := &LockSvc{WD: wd, NumClients: numClients, FIFO: fifo, arrive: map[string][]tla.Value{}}
	var nodes []tla.Value
	for i := 0; i <= numClients; i++ {
		nodes = append(nodes, tla.MakeNumber(int32(i)))
	}
	wd.Vars["network"] = tla.MakeFunction([]tla.Value{tla.MakeSet(nodes...)}, func([]tla.Value) tla.Value { return tla.MakeTuple() })
	wd.Vars["hasLock"] = tla.MakeFunction([]tla.Value{tla.MakeSet(nodes...)}, func([]tla.Value) tla.Value { return tla.ModuleFALSE })
	network := func() *env.Res {
		return wd.NewRes("network",
			func(wd *env.World, idx []tla.Value) (tla.Value, error) {
				box := env.FnGet(wd.Get("network"), idx[0])
				if env.BagCardinality(box) == 0 {
					return tla.Value{}, env.Abort
				}
				elems := env.BagElems(box)
				var m tla.Value
				if s.FIFO {
					// oldest message still in the bag
					q := s.arrive[idx[0].String()]
					m = q[0]
				} else {
					m = elems[wd.Choose(len(elems))]
				}
				wd.Set("network", env.FnSet(wd.Get("network"), idx[0], env.BagRemove(box, m)))
				s.pendingPop = append(s.pendingPop, pop{idx[0].String(), m})
				return m, nil
			},
			func(wd *env.World, idx []tla.Value, v tla.Value) error {
				box := env.FnGet(wd.Get("network"), idx[0])
				wd.Set("network", env.FnSet(wd.Get("network"), idx[0], env.BagAdd(box, v)))
				s.pendingPush = append(s.pendingPush, pop{idx[0].String(), v})
				return nil
			})
	}
	consts := distsys.DefineConstantValue("NumClients", tla.MakeNumber(int32(numClients)))
	s.Server = wd.AddActor("Server", tla.MakeNumber(0), locksvc.AServer, []string{"AServer.msg", "AServer.q"},
		consts, distsys.EnsureArchetypeRefParam("network", network()))
	for c := 1; c <= numClients; c++ {
		a := wd.AddActor(fmt.Sprintf("client%d", c), tla.MakeNumber(int32(c)), locksvc.AClient, nil,
			consts, distsys.EnsureArchetypeRefParam("network", network()),
			distsys.EnsureArchetypeRefParam("hasLock", wd.PlainVar("hasLock")))
		s.Clients = append(s.Clients, a)
	}
	return s
}

type pop struct {
	box string
	m   tla.Value
}

// bookkeeping of arrival order (only consulted in the FIFO configuration); updated when
// the attempt's fate is known
func (s *LockSvc) Settle(committed bool) {
	if committed {
		for _, p := range s.pendingPop {
			q := s.arrive[p.box]
			for i := range q {
				if q[i].Equal(p.m) {
					s.arrive[p.box] = append(append([]tla.Value{}, q[:i]...), q[i+1:]...)
					break
				}
			}
		}
		for _, p := range s.pendingPush {
			s.arrive[p.box] = append(s.arrive[p.box], p.m)
		}
	}
	s.pendingPop, s.pendingPush = nil, nil
}

// pcOf renders an actor's program counter as the spec's pc value.
func pcOf(a *env.Actor) string {
	if a.Done() {
		return `"Done"`
	}
	pc := a.PC
	for i := 0; i < len(pc); i++ {
		if pc[i] == '.' {
			pc = pc[i+1:]
			break
		}
	}
	return fmt.Sprintf("%q", pc)
}

// fnOver renders [self \in ids |-> f(self)] as an explicit function.
func fnOver(ids []string, vals []string) string {
	if len(ids) == 0 {
		return "<<>>"
	}
	s := "("
	for i := range ids {
		if i > 0 {
			s += " @@ "
		}
		s += "(" + ids[i] + " :> " + vals[i] + ")"
	}
	return s + ")"
}

func local(a *env.Actor, name string) string {
	v, ok := a.Local(name)
	if !ok {
		return "defaultInitValue"
	}
	return tlc.Render(v)
}

// TLCSystem describes locksvc.tla for the step oracle.
func (s *LockSvc) TLCSystem(repo string) tlc.System {
	return tlc.System{
		Name: "locksvc", SpecPath: repo + "/systems/locksvc/locksvc.tla",
		Vars:   []string{"pc", "network", "hasLock", "msg", "q"},
		Consts: map[string]string{"NumClients": fmt.Sprint(s.NumClients), "defaultInitValue": "defaultInitValue"},
	}
}

// State is the full spec state (PlusCal translation variables) at a step boundary.
func (s *LockSvc) State() tlc.State {
	ids := []string{"0"}
	pcs := []string{pcOf(s.Server)}
	for _, c := range s.Clients {
		ids = append(ids, tlc.Render(c.Self))
		pcs = append(pcs, pcOf(c))
	}
	return tlc.State{
		"pc":      fnOver(ids, pcs),
		"network": tlc.Render(s.WD.Vars["network"]),
		"hasLock": tlc.Render(s.WD.Vars["hasLock"]),
		"msg":     fnOver([]string{"0"}, []string{local(s.Server, "AServer.msg")}),
		"q":       fnOver([]string{"0"}, []string{local(s.Server, "AServer.q")}),
	}
}
