package envsys

import (
	"fmt"
	"strings"

	"github.com/DistCompiler/pgo/distsys"
	"github.com/DistCompiler/pgo/distsys/resources"
	"github.com/DistCompiler/pgo/distsys/tla"
	"github.com/DistCompiler/pgo/systems/nestedcrdtimpl"
	"github.com/benbjohnson/immutable"

	"verif/env"
	"verif/sim"
)

// NestedCRDT wires systems/nestedcrdtimpl to the spec world of NestedCRDTImpl.tla: the
// generated ACRDTResource archetypes (one per node) with network via TCPChannel and in/out
// via SingleCellChannel; the spec's plain `Node` processes (which are not archetypes and
// therefore have no generated Go) are transcribed here label by label.
type NestedCRDT struct {
	WD     *env.World
	NN     int
	NumOps int
	Buffer int
	Res    []*env.Actor // resource of node i at index i-1; id = NN + i
	Nodes  []*NodeProc
}

type NodeProc struct {
	ID                                      int
	PC                                      string
	OpsDone, WritesPending, WritesAchieved  int
	ShouldCommit                            bool
}

var EmptyCell = tla.MakeString("EMPTY_CELL")

// G-counter operators, as in nestedcrdtimpl_test.go makeGCounterResource
func gcCombine(lhs, rhs tla.Value) tla.Value {
	builder := immutable.NewMapBuilder[tla.Value, tla.Value](&tla.ValueHasher{})
	incorporate := func(fn tla.Value) {
		it := fn.AsFunction().Iterator()
		for !it.Done() {
			k, v, _ := it.Next()
			if v2, ok := builder.Get(k); ok {
				if v.AsNumber() > v2.AsNumber() {
					builder.Set(k, v)
				}
			} else {
				builder.Set(k, v)
			}
		}
	}
	incorporate(lhs)
	incorporate(rhs)
	return tla.MakeRecordFromMap(builder.Map())
}

func gcUpdate(self, state, v tla.Value) tla.Value {
	origVal := tla.ModuleZero
	if orig, ok := state.AsFunction().Get(self); ok {
		origVal = orig
	}
	return tla.MakeRecordFromMap(state.AsFunction().Set(self, tla.ModulePlusSymbol(origVal, v)))
}

func GCView(state tla.Value) tla.Value {
	var total int32
	it := state.AsFunction().Iterator()
	for !it.Done() {
		_, counter, _ := it.Next()
		total += counter.AsNumber()
	}
	return tla.MakeNumber(total)
}

func singleCell(wd *env.World, varName string) *env.Res {
	return wd.NewRes(varName,
		func(wd *env.World, idx []tla.Value) (tla.Value, error) {
			v := env.FnGet(wd.Get(varName), idx[0])
			if v.Equal(EmptyCell) {
				return tla.Value{}, env.Abort
			}
			wd.Set(varName, env.FnSet(wd.Get(varName), idx[0], EmptyCell))
			return v, nil
		},
		func(wd *env.World, idx []tla.Value, v tla.Value) error {
			if !env.FnGet(wd.Get(varName), idx[0]).Equal(EmptyCell) {
				return env.Abort
			}
			wd.Set(varName, env.FnSet(wd.Get(varName), idx[0], v))
			return nil
		})
}

func NewNestedCRDT(wd *env.World, nn, numOps, buffer int) *NestedCRDT {
	n := &NestedCRDT{WD: wd, NN: nn, NumOps: numOps, Buffer: buffer}
	var rids, nids []tla.Value
	for i := 1; i <= nn; i++ {
		nids = append(nids, num(i))
		rids = append(rids, num(nn+i))
	}
	wd.Vars["network"] = fnOverSet(rids, func(tla.Value) tla.Value { return tla.MakeTuple() })
	wd.Vars["in"] = fnOverSet(rids, func(tla.Value) tla.Value { return EmptyCell })
	wd.Vars["out"] = fnOverSet(rids, func(tla.Value) tla.Value { return EmptyCell })
	for i := 1; i <= nn; i++ {
		var peers []tla.Value
		for j := 1; j <= nn; j++ {
			if j != i {
				peers = append(peers, num(nn+j))
			}
		}
		a := wd.AddActor(fmt.Sprintf("crdt%d", nn+i), num(nn+i), nestedcrdtimpl.ACRDTResource, nil,
			resources.NestedArchetypeConstantDefs,
			distsys.DefineConstantValue("ZERO_VALUE", tla.MakeRecord(nil)),
			distsys.DefineConstantValue("NODE_IDS", tla.MakeSet(nids...)),
			distsys.DefineConstantValue("BUFFER_SIZE", num(buffer)),
			distsys.DefineConstantOperator("COMBINE_FN", gcCombine),
			distsys.DefineConstantOperator("UPDATE_FN", gcUpdate),
			distsys.DefineConstantOperator("VIEW_FN", GCView),
			distsys.EnsureArchetypeRefParam("in", singleCell(wd, "in")),
			distsys.EnsureArchetypeRefParam("out", singleCell(wd, "out")),
			distsys.EnsureArchetypeRefParam("network", tcpChannel(wd, "network", buffer)),
			distsys.EnsureArchetypeRefParam("peers", distsys.NewLocalArchetypeResource(tla.MakeSet(peers...))),
			distsys.EnsureArchetypeRefParam("timer", distsys.NewLocalArchetypeResource(tla.ModuleTRUE)))
		n.Res = append(n.Res, a)
		n.Nodes = append(n.Nodes, &NodeProc{ID: i, PC: "criticalSection"})
	}
	return n
}

func (n *NestedCRDT) rid(p *NodeProc) tla.Value { return num(n.NN + p.ID) }

func (n *NestedCRDT) cell(name string, p *NodeProc) tla.Value {
	return n.WD.Vars[name].ApplyFunction(n.rid(p))
}

func (n *NestedCRDT) setCell(name string, p *NodeProc, v tla.Value) {
	n.WD.Vars[name] = env.FnSet(n.WD.Vars[name], n.rid(p), v)
	n.WD.Version++
}

// NodeEnabled: whether the Node process can take its next label now.
func (n *NestedCRDT) NodeEnabled(p *NodeProc) bool {
	switch p.PC {
	case "Done":
		return false
	case "readAck", "abortAck", "writeAck", "preCommitAck", "commitAck":
		return !n.cell("out", p).Equal(EmptyCell)
	}
	return true
}

var nestedReqs = map[string]string{"readReq": "READ_REQ", "abortReq": "ABORT_REQ", "writeReq": "WRITE_REQ", "preCommitReq": "PRECOMMIT_REQ", "commitReq": "COMMIT_REQ"}
var nestedAcks = map[string]string{"readAck": "READ_ACK", "abortAck": "ABORT_ACK", "writeAck": "WRITE_ACK", "preCommitAck": "PRECOMMIT_ACK", "commitAck": "COMMIT_ACK"}

func nestedConst(name string) tla.Value {
	// NestedArchetypeConstantDefs binds each constant to its lower-case name
	return tla.MakeString(strings.ToLower(name))
}

// NodeStep executes one label of the spec's Node process (transcribed from
// NestedCRDTImpl.tla). It returns the label executed, the acknowledgement consumed (if
// any) and an error text if an assertion of the Node process fails.
func (n *NestedCRDT) NodeStep(p *NodeProc, w *sim.World) (label string, ack tla.Value, fail string) {
	label = p.PC
	switch p.PC {
	case "criticalSection":
		var br []int
		if !p.ShouldCommit {
			br = append(br, 0)
		}
		if p.OpsDone < n.NumOps {
			br = append(br, 1, 2, 3)
		}
		if p.ShouldCommit {
			br = append(br, 4)
		}
		switch br[w.Choose(sim.KEither, len(br))] {
		case 0:
			p.PC = "Done"
		case 1, 3:
			p.OpsDone++
			p.PC = "readReq"
		case 2:
			p.OpsDone++
			p.PC = "writeReq"
		case 4:
			p.PC = "preCommitReq"
		}
		n.WD.Version++
	case "readReq", "abortReq", "writeReq", "preCommitReq", "commitReq":
		if !n.cell("in", p).Equal(EmptyCell) {
			// plain assignment in the spec; a non-empty cell would silently overwrite a request
			return label, tla.Value{}, fmt.Sprintf("node %d writes %s while in[%v] still holds %v", p.ID, nestedReqs[p.PC], n.rid(p), n.cell("in", p))
		}
		req := rec("tpe", nestedConst(nestedReqs[p.PC]))
		if p.PC == "writeReq" {
			p.WritesPending++
			req = rec("tpe", nestedConst("WRITE_REQ"), "value", num(1))
		}
		n.setCell("in", p, req)
		p.PC = map[string]string{"readReq": "readAck", "abortReq": "abortAck", "writeReq": "writeAck", "preCommitReq": "preCommitAck", "commitReq": "commitAck"}[p.PC]
	default: // acks
		ack = n.cell("out", p)
		if !ack.ApplyFunction(str("tpe")).Equal(nestedConst(nestedAcks[p.PC])) {
			return label, ack, fmt.Sprintf("node %d at %s: assert out[%v].tpe = %s fails, cell holds %v", p.ID, p.PC, n.rid(p), nestedAcks[p.PC], ack)
		}
		n.setCell("out", p, EmptyCell)
		switch p.PC {
		case "readAck", "writeAck":
			p.ShouldCommit = true
			p.PC = "criticalSection"
		case "abortAck":
			p.WritesPending = 0
			p.ShouldCommit = false
			p.PC = "criticalSection"
		case "preCommitAck":
			br := []int{1}
			if p.OpsDone < n.NumOps {
				br = append(br, 0)
			}
			if br[w.Choose(sim.KEither, len(br))] == 0 {
				p.OpsDone++
				p.PC = "abortReq"
			} else {
				p.PC = "commitReq"
			}
		case "commitAck":
			p.WritesAchieved += p.WritesPending
			p.WritesPending = 0
			p.ShouldCommit = false
			p.PC = "criticalSection"
		}
	}
	return label, ack, ""
}

// ResHasWork: whether resource i (1-based) has an enabled branch in receiveReq.
func (n *NestedCRDT) ResHasWork(i int) bool {
	a := n.Res[i-1]
	id := num(n.NN + i)
	if !n.WD.Vars["in"].ApplyFunction(id).Equal(EmptyCell) && n.WD.Vars["out"].ApplyFunction(id).Equal(EmptyCell) {
		return true
	}
	if n.WD.Vars["network"].ApplyFunction(id).AsTuple().Len() > 0 {
		return true
	}
	rem, ok := a.Local("ACRDTResource.remainingPeersToUpdate")
	if ok && rem.IsSet() {
		it := rem.AsSet().Iterator()
		for !it.Done() {
			k, _, _ := it.Next()
			if n.WD.Vars["network"].ApplyFunction(k).AsTuple().Len() < n.Buffer {
				return true
			}
		}
	}
	return false
}
