package envsys

import (
	"fmt"

	"github.com/DistCompiler/pgo/distsys"
	"github.com/DistCompiler/pgo/distsys/tla"
	"github.com/DistCompiler/pgo/systems/raftkvs"

	"verif/env"
	"verif/sim"
	"verif/tlc"
)

// Raft wires systems/raftkvs/raftkvs.go to the spec world of raftkvs.tla. Mapping
// macros implemented to the letter: ReliableFIFOLink, NetworkBufferLength,
// NetworkToggle, UnreliableFD, PersistentLog, Channel, LeaderTimeout, RequestsChannel,
// ClientTimeout.
type Raft struct {
	WD          *env.World
	N, C        int
	ExploreFail bool
	MaxNodeFail int
	BufferSize  int
	// PerLinkFIFO restricts reads of a mailbox to, for each sender, its oldest message
	// (any interleaving of senders): the delivery order the real mailboxes guarantee.
	PerLinkFIFO bool
	Arr         *env.Arrivals
	Servers     [][]*env.Actor // [server-1][0..4]: AServer, RequestVote, AppendEntries, AdvanceCommitIndex, BecomeLeader
	Clients     []*env.Actor
	Crashers    []*env.Actor
	// NextReq supplies client requests (RequestsChannel picks any element of AllReqs;
	// the harness decides which); nil result = no more requests (the client is not scheduled further).
	NextReq func(client int) (tla.Value, bool)
	// TimeoutP0 biases LeaderTimeout/ClientTimeout/UnreliableFD coin flips towards FALSE.
	CoinP0   float64
	Strings  []string
	// TimeoutP0, when set, gives the probability that server sv's LeaderTimeout read answers
	// FALSE (state-aware bias of the harness: a favoured candidate); nil = CoinP0.
	TimeoutP0 func(sv int) float64
	// Isolated servers neither obtain messages nor have their messages obtained by others,
	// with high probability per attempt (message delay, as a partition produces; the spec's
	// read is merely not taken: an aborted attempt is a step not scheduled).
	Isolated map[int]bool
}

func str(s string) tla.Value { return tla.MakeString(s) }
func num(i int) tla.Value    { return tla.MakeNumber(int32(i)) }

func rec(kv ...any) tla.Value {
	var fs []tla.RecordField
	for i := 0; i < len(kv); i += 2 {
		fs = append(fs, tla.RecordField{Key: str(kv[i].(string)), Value: kv[i+1].(tla.Value)})
	}
	return tla.MakeRecord(fs)
}

func setOf(vs ...tla.Value) tla.Value { return tla.MakeSet(vs...) }

func fnOverSet(dom []tla.Value, f func(tla.Value) tla.Value) tla.Value {
	return tla.MakeFunction([]tla.Value{tla.MakeSet(dom...)}, func(a []tla.Value) tla.Value { return f(a[0]) })
}

func (r *Raft) coin() bool {
	return r.WD.W.ChooseP(sim.KEither, 2, r.CoinP0) == 1
}

func NewRaft(wd *env.World, n, c int, exploreFail bool, maxFail int, bufferSize int, perLinkFIFO bool, strings []string) *Raft {
	r := &Raft{WD: wd, N: n, C: c, ExploreFail: exploreFail, MaxNodeFail: maxFail, BufferSize: bufferSize, PerLinkFIFO: perLinkFIFO, Arr: env.NewArrivals(), CoinP0: 0.7, Strings: strings}
	var servers, nodes []tla.Value
	for i := 1; i <= n; i++ {
		servers = append(servers, num(i))
		nodes = append(nodes, num(i))
	}
	for k := 1; k <= c; k++ {
		nodes = append(nodes, num(6*n+k))
	}
	V := wd.Vars
	V["network"] = fnOverSet(nodes, func(tla.Value) tla.Value { return rec("queue", tla.MakeTuple(), "enabled", tla.ModuleTRUE) })
	V["fd"] = fnOverSet(servers, func(tla.Value) tla.Value { return tla.ModuleFALSE })
	V["state"] = fnOverSet(servers, func(tla.Value) tla.Value { return str("follower") })
	V["currentTerm"] = fnOverSet(servers, func(tla.Value) tla.Value { return num(1) })
	V["commitIndex"] = fnOverSet(servers, func(tla.Value) tla.Value { return num(0) })
	V["nextIndex"] = fnOverSet(servers, func(tla.Value) tla.Value { return fnOverSet(servers, func(tla.Value) tla.Value { return num(1) }) })
	V["matchIndex"] = fnOverSet(servers, func(tla.Value) tla.Value { return fnOverSet(servers, func(tla.Value) tla.Value { return num(0) }) })
	V["log"] = fnOverSet(servers, func(tla.Value) tla.Value { return tla.MakeTuple() })
	V["plog"] = fnOverSet(servers, func(tla.Value) tla.Value { return tla.MakeTuple() })
	V["votedFor"] = fnOverSet(servers, func(tla.Value) tla.Value { return num(0) })
	V["votesResponded"] = fnOverSet(servers, func(tla.Value) tla.Value { return setOf() })
	V["votesGranted"] = fnOverSet(servers, func(tla.Value) tla.Value { return setOf() })
	V["leader"] = fnOverSet(servers, func(tla.Value) tla.Value { return num(0) })
	V["sm"] = fnOverSet(servers, func(tla.Value) tla.Value { return tla.MakeRecord(nil) }) // [k \in {} |-> Nil]: the empty function
	V["smDomain"] = fnOverSet(servers, func(tla.Value) tla.Value { return setOf() })
	V["leaderTimeout"] = tla.ModuleTRUE
	V["appendEntriesCh"] = fnOverSet(servers, func(tla.Value) tla.Value { return tla.MakeTuple() })
	V["becomeLeaderCh"] = fnOverSet(servers, func(tla.Value) tla.Value {
		if n > 1 {
			return tla.MakeTuple()
		}
		return tla.MakeTuple(tla.ModuleTRUE)
	})
	V["reqCh"] = tla.Value{}
	V["respCh"] = tla.Value{}

	netRes := func() *env.Res {
		return wd.NewRes("net",
			func(wd *env.World, idx []tla.Value) (tla.Value, error) {
				box := env.FnGet(wd.Get("network"), idx[0])
				if !box.ApplyFunction(str("enabled")).AsBool() {
					return tla.Value{}, env.AssertFail("$variable.enabled")
				}
				q := box.ApplyFunction(str("queue"))
				if env.BagCardinality(q) == 0 {
					return tla.Value{}, env.Abort
				}
				cands := env.BagElems(q)
				if len(r.Isolated) > 0 {
					if idx[0].IsNumber() && r.Isolated[int(idx[0].AsNumber())] && wd.W.ChooseP(sim.KNet, 20, 0.95) == 0 {
						return tla.Value{}, env.Abort
					}
				}
				if r.PerLinkFIFO {
					// for each sender only its oldest message still in the mailbox
					var eligible []tla.Value
					seen := map[string]bool{}
					for _, m := range r.Arr.Queue(idx[0].String()) {
						src := m.ApplyFunction(str("msource")).String()
						if !seen[src] {
							seen[src] = true
							eligible = append(eligible, m)
						}
					}
					if len(eligible) > 0 {
						cands = eligible
					}
				}
				m := cands[wd.Choose(len(cands))]
				nb := rec("queue", env.BagRemove(q, m), "enabled", box.ApplyFunction(str("enabled")))
				wd.Set("network", env.FnSet(wd.Get("network"), idx[0], nb))
				r.Arr.Pop(idx[0].String(), m)
				return m, nil
			},
			func(wd *env.World, idx []tla.Value, v tla.Value) error {
				if len(r.Isolated) > 0 && v.IsFunction() {
					// an isolated server's sends do not leave it (the attempt is not taken now)
					if src, ok := v.AsFunction().Get(str("msource")); ok && src.IsNumber() && r.Isolated[int(src.AsNumber())] && wd.W.ChooseP(sim.KNet, 20, 0.95) == 0 {
						return env.Abort
					}
				}
				box := env.FnGet(wd.Get("network"), idx[0])
				if !box.ApplyFunction(str("enabled")).AsBool() {
					return env.Abort
				}
				q := box.ApplyFunction(str("queue"))
				if env.BagCardinality(q) >= r.BufferSize {
					return env.Abort
				}
				nb := rec("queue", env.BagAdd(q, v), "enabled", box.ApplyFunction(str("enabled")))
				wd.Set("network", env.FnSet(wd.Get("network"), idx[0], nb))
				r.Arr.Push(idx[0].String(), v)
				return nil
			})
	}
	netLen := func() *env.Res {
		return wd.NewRes("netLen",
			func(wd *env.World, idx []tla.Value) (tla.Value, error) {
				q := env.FnGet(wd.Get("network"), idx[0]).ApplyFunction(str("queue"))
				return num(wd.Choose(env.BagCardinality(q) + 1)), nil
			},
			func(*env.World, []tla.Value, tla.Value) error { return env.AssertFail("write to NetworkBufferLength") })
	}
	netEnabled := func() *env.Res {
		return wd.NewRes("netEnabled",
			func(wd *env.World, idx []tla.Value) (tla.Value, error) {
				return env.FnGet(wd.Get("network"), idx[0]).ApplyFunction(str("enabled")), nil
			},
			func(wd *env.World, idx []tla.Value, v tla.Value) error {
				box := env.FnGet(wd.Get("network"), idx[0])
				wd.Set("network", env.FnSet(wd.Get("network"), idx[0], rec("queue", box.ApplyFunction(str("queue")), "enabled", v)))
				return nil
			})
	}
	fd := func() *env.Res {
		return wd.NewRes("fd",
			func(wd *env.World, idx []tla.Value) (tla.Value, error) { // UnreliableFD: either FALSE or TRUE
				return tla.MakeBool(r.coin()), nil
			},
			func(wd *env.World, idx []tla.Value, v tla.Value) error {
				wd.Set("fd", env.FnSet(wd.Get("fd"), idx[0], v))
				return nil
			})
	}
	plog := func() *env.Res {
		return wd.NewRes("plog",
			func(wd *env.World, idx []tla.Value) (tla.Value, error) { return env.FnGet(wd.Get("plog"), idx[0]), nil },
			func(wd *env.World, idx []tla.Value, v tla.Value) error {
				cur := env.FnGet(wd.Get("plog"), idx[0])
				cmd := v.ApplyFunction(str("cmd"))
				switch {
				case cmd.Equal(num(2)):
					wd.Set("plog", env.FnSet(wd.Get("plog"), idx[0], tla.ModuleOSymbol(cur, v.ApplyFunction(str("entries")))))
				case cmd.Equal(num(1)):
					n := tla.ModuleMinusSymbol(tla.ModuleLen(cur), v.ApplyFunction(str("cnt")))
					wd.Set("plog", env.FnSet(wd.Get("plog"), idx[0], tla.ModuleSubSeq(cur, num(1), n)))
				}
				return nil
			})
	}
	channel := func(name string) *env.Res {
		return wd.NewRes(name,
			func(wd *env.World, idx []tla.Value) (tla.Value, error) {
				ch := env.FnGet(wd.Get(name), idx[0])
				if ch.AsTuple().Len() > 0 {
					wd.Set(name, env.FnSet(wd.Get(name), idx[0], tla.ModuleTail(ch)))
					return tla.ModuleHead(ch), nil
				}
				return tla.ModuleTRUE, nil // await $variable = <<>>; yield TRUE
			},
			func(wd *env.World, idx []tla.Value, v tla.Value) error {
				ch := env.FnGet(wd.Get(name), idx[0])
				wd.Set(name, env.FnSet(wd.Get(name), idx[0], tla.ModuleAppend(ch, v)))
				return nil
			})
	}
	leaderTimeout := func(sv int) *env.Res {
		return wd.NewRes("leaderTimeout",
			func(wd *env.World, idx []tla.Value) (tla.Value, error) {
				if r.TimeoutP0 != nil {
					return tla.MakeBool(r.WD.W.ChooseP(sim.KEither, 2, r.TimeoutP0(sv)) == 1), nil
				}
				return tla.MakeBool(r.coin()), nil
			},
			func(wd *env.World, idx []tla.Value, v tla.Value) error { wd.Set("leaderTimeout", v); return nil })
	}
	strSet := make([]tla.Value, len(strings))
	for i, s := range strings {
		strSet[i] = str(s)
	}
	consts := distsys.EnsureMPCalContextConfigs(
		distsys.DefineConstantValue("NumServers", num(n)),
		distsys.DefineConstantValue("NumClients", num(c)),
		distsys.DefineConstantValue("ExploreFail", tla.MakeBool(exploreFail)),
		distsys.DefineConstantValue("MaxNodeFail", num(maxFail)),
		distsys.DefineConstantValue("Debug", tla.ModuleFALSE),
		distsys.DefineConstantValue("LogConcat", num(2)),
		distsys.DefineConstantValue("LogPop", num(1)),
		distsys.DefineConstantValue("LeaderTimeoutReset", tla.ModuleTRUE),
		distsys.DefineConstantValue("AllStrings", tla.MakeSet(strSet...)),
	)
	srvParams := func(arch string, srvId int) []distsys.MPCalContextConfigFn {
		p := func(name string, res *env.Res) distsys.MPCalContextConfigFn {
			return distsys.EnsureArchetypeRefParam(name, res)
		}
		return []distsys.MPCalContextConfigFn{consts,
			distsys.EnsureArchetypeValueParam("srvId", num(srvId)),
			p("net", netRes()), p("netLen", netLen()), p("netEnabled", netEnabled()), p("fd", fd()),
			p("state", wd.PlainVar("state")), p("currentTerm", wd.PlainVar("currentTerm")),
			p("log", wd.PlainVar("log")), p("plog", plog()),
			p("commitIndex", wd.PlainVar("commitIndex")), p("nextIndex", wd.PlainVar("nextIndex")), p("matchIndex", wd.PlainVar("matchIndex")),
			p("votedFor", wd.PlainVar("votedFor")), p("votesResponded", wd.PlainVar("votesResponded")), p("votesGranted", wd.PlainVar("votesGranted")),
			p("leader", wd.PlainVar("leader")), p("sm", wd.PlainVar("sm")), p("smDomain", wd.PlainVar("smDomain")),
			p("leaderTimeout", leaderTimeout(srvId)),
			p("appendEntriesCh", channel("appendEntriesCh")), p("becomeLeaderCh", channel("becomeLeaderCh")),
		}
	}
	archs := []distsys.MPCalArchetype{raftkvs.AServer, raftkvs.AServerRequestVote, raftkvs.AServerAppendEntries, raftkvs.AServerAdvanceCommitIndex, raftkvs.AServerBecomeLeader}
	tags := []string{"s", "rv", "ae", "aci", "bl"}
	for i := 1; i <= n; i++ {
		var row []*env.Actor
		for k, a := range archs {
			self := k*n + i
			row = append(row, wd.AddActor(fmt.Sprintf("%s%d", tags[k], i), num(self), a, nil, srvParams(a.Name, i)...))
		}
		r.Servers = append(r.Servers, row)
	}
	for k := 1; k <= c; k++ {
		k := k
		reqCh := wd.NewRes("reqCh",
			func(wd *env.World, idx []tla.Value) (tla.Value, error) {
				if r.NextReq == nil {
					return tla.Value{}, env.Abort
				}
				v, ok := r.NextReq(k)
				if !ok {
					return tla.Value{}, env.Abort
				}
				return v, nil
			},
			func(*env.World, []tla.Value, tla.Value) error { return env.AssertFail("write to RequestsChannel") })
		timeout := wd.NewRes("timeout",
			func(wd *env.World, idx []tla.Value) (tla.Value, error) { return tla.MakeBool(r.coin()), nil },
			func(*env.World, []tla.Value, tla.Value) error { return env.AssertFail("write to ClientTimeout") })
		a := wd.AddActor(fmt.Sprintf("c%d", k), num(6*n+k), raftkvs.AClient, nil, consts,
			distsys.EnsureArchetypeRefParam("net", netRes()), distsys.EnsureArchetypeRefParam("netLen", netLen()),
			distsys.EnsureArchetypeRefParam("fd", fd()), distsys.EnsureArchetypeRefParam("reqCh", reqCh),
			distsys.EnsureArchetypeRefParam("respCh", wd.PlainVar("respCh")), distsys.EnsureArchetypeRefParam("timeout", timeout))
		r.Clients = append(r.Clients, a)
	}
	if exploreFail {
		for k := 1; k <= maxFail; k++ {
			a := wd.AddActor(fmt.Sprintf("crash%d", k), num(5*n+k), raftkvs.AServerCrasher, nil, consts,
				distsys.EnsureArchetypeValueParam("srvId", num(k)),
				distsys.EnsureArchetypeRefParam("netEnabled", netEnabled()), distsys.EnsureArchetypeRefParam("fd", fd()))
			r.Crashers = append(r.Crashers, a)
		}
	}
	return r
}

// G reads a global of one server, e.g. G("state", 2).
func (r *Raft) G(name string, i int) tla.Value { return r.WD.Vars[name].ApplyFunction(num(i)) }

// ---- TLC binding (PlusCal translation variable names of raftkvs.tla) ----

func (r *Raft) TLCSystem(repo string) tlc.System {
	strs := "{"
	for i, s := range r.Strings {
		if i > 0 {
			strs += ", "
		}
		strs += fmt.Sprintf("%q", s)
	}
	strs += "}"
	return tlc.System{
		Name: "raftkvs", SpecPath: repo + "/systems/raftkvs/raftkvs.tla",
		Vars: []string{"pc", "network", "fd", "state", "currentTerm", "commitIndex", "nextIndex", "matchIndex", "log", "plog",
			"votedFor", "votesResponded", "votesGranted", "leader", "sm", "smDomain", "leaderTimeout", "appendEntriesCh", "becomeLeaderCh",
			"reqCh", "respCh", "requestVoteSrvId", "appendEntriesSrvId", "advanceCommitIndexSrvId", "becomeLeaderSrvId", "crasherSrvId",
			"idx", "m", "srvId", "idx0", "srvId0", "idx1", "srvId1", "newCommitIndex", "srvId2", "srvId3",
			"leader0", "req", "resp", "reqIdx", "timeout", "srvId4"},
		Consts: map[string]string{
			"NumServers": fmt.Sprint(r.N), "NumClients": fmt.Sprint(r.C), "ExploreFail": map[bool]string{true: "TRUE", false: "FALSE"}[r.ExploreFail],
			"MaxNodeFail": fmt.Sprint(r.MaxNodeFail), "BufferSize": fmt.Sprint(r.BufferSize), "Debug": "FALSE",
			"LogConcat": "2", "LogPop": "1", "LeaderTimeoutReset": "TRUE", "AllStrings": strs,
			"NumRequests": "1", "MaxTerm": "1000", "MaxCommitIndex": "1000", "defaultInitValue": "defaultInitValue",
		},
	}
}

func (r *Raft) State() tlc.State {
	V := r.WD.Vars
	st := tlc.State{}
	for _, g := range []string{"network", "fd", "state", "currentTerm", "commitIndex", "nextIndex", "matchIndex", "log", "plog", "votedFor",
		"votesResponded", "votesGranted", "leader", "sm", "smDomain", "leaderTimeout", "appendEntriesCh", "becomeLeaderCh", "reqCh", "respCh"} {
		st[g] = tlc.Render(V[g])
	}
	n := r.N
	var ids, pcs []string
	add := func(a *env.Actor) {
		ids = append(ids, tlc.Render(a.Self))
		pcs = append(pcs, pcOf(a))
	}
	mapIds := func(k int) ([]string, []string) {
		var i, v []string
		for s := 1; s <= n; s++ {
			i = append(i, fmt.Sprint(k*n+s))
			v = append(v, fmt.Sprint(s))
		}
		return i, v
	}
	for _, row := range r.Servers {
		for _, a := range row {
			add(a)
		}
	}
	for _, a := range r.Clients {
		add(a)
	}
	for _, a := range r.Crashers {
		add(a)
	}
	st["pc"] = fnOver(ids, pcs)
	i1, v1 := mapIds(1)
	st["requestVoteSrvId"] = fnOver(i1, v1)
	i2, v2 := mapIds(2)
	st["appendEntriesSrvId"] = fnOver(i2, v2)
	i3, v3 := mapIds(3)
	st["advanceCommitIndexSrvId"] = fnOver(i3, v3)
	i4, v4 := mapIds(4)
	st["becomeLeaderSrvId"] = fnOver(i4, v4)
	var ci, cv []string
	for k := range r.Crashers {
		ci = append(ci, fmt.Sprint(5*n+k+1))
		cv = append(cv, fmt.Sprint(k+1))
	}
	st["crasherSrvId"] = fnOver(ci, cv)
	col := func(k int, local string) ([]string, []string) {
		var i, v []string
		for s := 0; s < n; s++ {
			a := r.Servers[s][k]
			i = append(i, tlc.Render(a.Self))
			v = append(v, localOr(a, local))
		}
		return i, v
	}
	set := func(name string, k int, local string) {
		i, v := col(k, local)
		st[name] = fnOver(i, v)
	}
	set("idx", 0, "AServer.idx")
	set("m", 0, "AServer.m")
	set("srvId", 0, "AServer.srvId")
	set("idx0", 1, "AServerRequestVote.idx")
	set("srvId0", 1, "AServerRequestVote.srvId")
	set("idx1", 2, "AServerAppendEntries.idx")
	set("srvId1", 2, "AServerAppendEntries.srvId")
	set("newCommitIndex", 3, "AServerAdvanceCommitIndex.newCommitIndex")
	set("srvId2", 3, "AServerAdvanceCommitIndex.srvId")
	set("srvId3", 4, "AServerBecomeLeader.srvId")
	var cids, l0, rq, rs, ri, to []string
	for _, a := range r.Clients {
		cids = append(cids, tlc.Render(a.Self))
		l0 = append(l0, localOr(a, "AClient.leader"))
		rq = append(rq, localOr(a, "AClient.req"))
		rs = append(rs, localOr(a, "AClient.resp"))
		ri = append(ri, localOr(a, "AClient.reqIdx"))
		to = append(to, "FALSE")
	}
	st["leader0"], st["req"], st["resp"], st["reqIdx"], st["timeout"] = fnOver(cids, l0), fnOver(cids, rq), fnOver(cids, rs), fnOver(cids, ri), fnOver(cids, to)
	var kids, ks []string
	for k, a := range r.Crashers {
		kids = append(kids, tlc.Render(a.Self))
		ks = append(ks, fmt.Sprint(k+1))
	}
	st["srvId4"] = fnOver(kids, ks)
	return st
}

func localOr(a *env.Actor, name string) string {
	v, ok := a.Local(name)
	if !ok {
		return "defaultInitValue"
	}
	return tlc.Render(v)
}
