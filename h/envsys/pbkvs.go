package envsys

import (
	"fmt"

	"github.com/DistCompiler/pgo/distsys"
	"github.com/DistCompiler/pgo/distsys/tla"
	"github.com/DistCompiler/pgo/systems/pbkvs"

	"verif/env"
	"verif/sim"
	"verif/tlc"
)

// PBKVS wires systems/pbkvs/pbkvs.go to the spec world of pbkvs.tla: ReliableFIFOLink
// indexed by <<id, typ>>, NetworkToggle, PerfectFD, FileSystem, LeaderElection,
// NetworkBufferLength, Channel — each to the letter.
type PBKVS struct {
	WD        *env.World
	NR, NC    int
	Explore   bool
	Replicas  []*env.Actor
	// CrashP0, if set, gives the probability that a mayFail branch of replica i is refused
	// now (default 0.75): a scenario may concentrate crashes on chosen situations
	CrashP0 func(replica int) float64
	Clients   []*env.Actor
	// MayFailP0: probability that a mayFail branch resolves to "skip" is left to the
	// stream (either is a plain choice); MaxFail bounds the crashes by refusing further
	// failure branches (the harness aborts the attempt and the choice is redrawn).
	Failed int
}

func NewPBKVS(wd *env.World, nr, nc int, explore bool, input []tla.Value) *PBKVS {
	p := &PBKVS{WD: wd, NR: nr, NC: nc, Explore: explore}
	V := wd.Vars
	var replicas []tla.Value
	for i := 1; i <= nr; i++ {
		replicas = append(replicas, num(i))
	}
	// network = [id \in NODE_SET, typ \in MSG_INDEX_SET |-> [queue |-> <<>>, enabled |-> TRUE]]
	var keys []tla.Value
	for i := 1; i <= nr+nc; i++ {
		for t := 1; t <= 2; t++ {
			keys = append(keys, tla.MakeTuple(num(i), num(t)))
		}
	}
	V["network"] = fnOverSet(keys, func(tla.Value) tla.Value { return rec("queue", tla.MakeTuple(), "enabled", tla.ModuleTRUE) })
	V["fd"] = fnOverSet(replicas, func(tla.Value) tla.Value { return tla.ModuleFALSE })
	V["fs"] = fnOverSet(replicas, func(tla.Value) tla.Value { return fnOverSet([]tla.Value{str("KEY1")}, func(tla.Value) tla.Value { return str("") }) })
	V["primary"] = tla.MakeSet(replicas...)
	V["clientInput"] = tla.MakeTuple(input...)
	V["clientOutput"] = tla.Value{}

	net := func() *env.Res {
		return wd.NewRes("net",
			func(wd *env.World, idx []tla.Value) (tla.Value, error) {
				box := env.FnGet(wd.Get("network"), idx[0])
				if !box.ApplyFunction(str("enabled")).AsBool() {
					return tla.Value{}, env.AssertFail("$variable.enabled")
				}
				q := box.ApplyFunction(str("queue"))
				if q.AsTuple().Len() == 0 {
					return tla.Value{}, env.Abort
				}
				wd.Set("network", env.FnSet(wd.Get("network"), idx[0], rec("queue", tla.ModuleTail(q), "enabled", box.ApplyFunction(str("enabled")))))
				return tla.ModuleHead(q), nil
			},
			func(wd *env.World, idx []tla.Value, v tla.Value) error {
				box := env.FnGet(wd.Get("network"), idx[0])
				if !box.ApplyFunction(str("enabled")).AsBool() {
					return env.Abort
				}
				wd.Set("network", env.FnSet(wd.Get("network"), idx[0], rec("queue", tla.ModuleAppend(box.ApplyFunction(str("queue")), v), "enabled", box.ApplyFunction(str("enabled")))))
				return nil
			})
	}
	netEnabled := func() *env.Res {
		return wd.NewRes("netEnabled",
			func(wd *env.World, idx []tla.Value) (tla.Value, error) {
				return env.FnGet(wd.Get("network"), idx[0]).ApplyFunction(str("enabled")), nil
			},
			func(wd *env.World, idx []tla.Value, v tla.Value) error {
				if !v.AsBool() && idx[0].AsTuple().Get(1).AsNumber() == 1 {
					// a mayFail branch: keep at least one replica alive (the property's quantifier)
					// and make crashes rare events; a refused branch aborts the attempt and the
					// either is drawn again
					alive := 0
					for i := 1; i <= p.NR; i++ {
						if p.Alive(i) && env.FnGet(wd.Get("network"), tla.MakeTuple(num(i), num(1))).ApplyFunction(str("enabled")).AsBool() {
							alive++
						}
					}
					p0 := 0.75
					if p.CrashP0 != nil {
						p0 = p.CrashP0(int(idx[0].AsTuple().Get(0).AsNumber()))
					}
					if alive <= 1 || wd.W.ChooseP(sim.KFault, 4, p0) == 0 {
						return env.Abort
					}
				}
				box := env.FnGet(wd.Get("network"), idx[0])
				wd.Set("network", env.FnSet(wd.Get("network"), idx[0], rec("queue", box.ApplyFunction(str("queue")), "enabled", v)))
				return nil
			})
	}
	netLen := func() *env.Res {
		return wd.NewRes("netLen",
			func(wd *env.World, idx []tla.Value) (tla.Value, error) {
				return tla.ModuleLen(env.FnGet(wd.Get("network"), idx[0]).ApplyFunction(str("queue"))), nil
			},
			func(*env.World, []tla.Value, tla.Value) error { return env.AssertFail("write to NetworkBufferLength") })
	}
	primary := func() *env.Res {
		return wd.NewRes("primary",
			func(wd *env.World, idx []tla.Value) (tla.Value, error) {
				s := wd.Get("primary").AsSet()
				if s.Len() == 0 {
					return num(0), nil
				}
				min := int32(1 << 30)
				it := s.Iterator()
				for !it.Done() {
					k, _, _ := it.Next()
					if k.AsNumber() < min {
						min = k.AsNumber()
					}
				}
				return tla.MakeNumber(min), nil
			},
			func(wd *env.World, idx []tla.Value, v tla.Value) error {
				wd.Set("primary", tla.ModuleBackslashSymbol(wd.Get("primary"), tla.MakeSet(v)))
				return nil
			})
	}
	input2 := wd.NewRes("clientInput",
		func(wd *env.World, idx []tla.Value) (tla.Value, error) {
			ch := wd.Get("clientInput")
			if ch.AsTuple().Len() == 0 {
				return tla.Value{}, env.Abort
			}
			wd.Set("clientInput", tla.ModuleTail(ch))
			return tla.ModuleHead(ch), nil
		},
		func(wd *env.World, idx []tla.Value, v tla.Value) error {
			wd.Set("clientInput", tla.ModuleAppend(wd.Get("clientInput"), v))
			return nil
		})
	consts := distsys.EnsureMPCalContextConfigs(
		distsys.DefineConstantValue("NUM_REPLICAS", num(nr)),
		distsys.DefineConstantValue("NUM_CLIENTS", num(nc)),
		distsys.DefineConstantValue("EXPLORE_FAIL", tla.MakeBool(explore)),
		distsys.DefineConstantValue("DEBUG", tla.ModuleFALSE),
	)
	for i := 1; i <= nr; i++ {
		a := wd.AddActor(fmt.Sprintf("replica%d", i), num(i), pbkvs.AReplica, nil, consts,
			distsys.EnsureArchetypeRefParam("net", net()), distsys.EnsureArchetypeRefParam("fs", wd.PlainVar("fs")),
			distsys.EnsureArchetypeRefParam("fd", wd.PlainVar("fd")), distsys.EnsureArchetypeRefParam("netEnabled", netEnabled()),
			distsys.EnsureArchetypeRefParam("primary", primary()), distsys.EnsureArchetypeRefParam("netLen", netLen()))
		p.Replicas = append(p.Replicas, a)
	}
	for k := 1; k <= nc; k++ {
		a := wd.AddActor(fmt.Sprintf("client%d", k), num(nr+k), pbkvs.AClient, nil, consts,
			distsys.EnsureArchetypeRefParam("net", net()), distsys.EnsureArchetypeRefParam("fd", wd.PlainVar("fd")),
			distsys.EnsureArchetypeRefParam("primary", primary()), distsys.EnsureArchetypeRefParam("netLen", netLen()),
			distsys.EnsureArchetypeRefParam("input", input2), distsys.EnsureArchetypeRefParam("output", wd.PlainVar("clientOutput")))
		p.Clients = append(p.Clients, a)
	}
	_ = sim.KEither
	return p
}

// Alive reports whether replica i (1-based) is neither at failLabel nor Done.
func (p *PBKVS) Alive(i int) bool {
	a := p.Replicas[i-1]
	if a.Done() {
		return false
	}
	return a.PC != "AReplica.failLabel" && a.PC != "AReplica.Done"
}

func (p *PBKVS) TLCSystem(repo string) tlc.System {
	return tlc.System{
		Name: "pbkvs", SpecPath: repo + "/systems/pbkvs/pbkvs.tla",
		Vars: []string{"network", "fd", "fs", "primary", "clientInput", "clientOutput", "pc", "req", "respBody", "respTyp", "idx", "repReq", "repResp", "resp",
			"replicaSet", "shouldSync", "lastPutBody", "replica", "req0", "resp0", "msg", "replica0", "idx0"},
		Consts: map[string]string{"NUM_REPLICAS": fmt.Sprint(p.NR), "NUM_CLIENTS": fmt.Sprint(p.NC), "EXPLORE_FAIL": map[bool]string{true: "TRUE", false: "FALSE"}[p.Explore],
			"DEBUG": "FALSE", "defaultInitValue": "defaultInitValue"},
		// CHOOSE r \in replicaSet: TRUE leaves the element unspecified: TLC and the Go runtime may
		// legitimately pick different ones; the oracle accepts any candidate (the spec's own
		// comment gives this `with` form)
		Rewrite: func(spec string) string { return rewriteChoose(spec) },
	}
}

func rewriteChoose(spec string) string {
	// in the TLA+ translation: replica' = [replica EXCEPT ![self] = CHOOSE r \in (replicaSet)[self] : TRUE]
	// becomes an existential over the same set
	old := "replica' = [replica EXCEPT ![self] = CHOOSE r \\in replicaSet[self] : TRUE]"
	neu := "(\\E rch \\in replicaSet[self] : replica' = [replica EXCEPT ![self] = rch])"
	out := ""
	for {
		i := indexOf(spec, old)
		if i < 0 {
			break
		}
		out += spec[:i] + neu
		spec = spec[i+len(old):]
	}
	return out + spec
}

func indexOf(s, sub string) int {
	for i := 0; i+len(sub) <= len(s); i++ {
		if s[i:i+len(sub)] == sub {
			return i
		}
	}
	return -1
}

func (p *PBKVS) State() tlc.State {
	V := p.WD.Vars
	st := tlc.State{}
	for _, g := range []string{"network", "fd", "fs", "primary", "clientInput", "clientOutput"} {
		st[g] = tlc.Render(V[g])
	}
	var ids, pcs []string
	for _, a := range append(append([]*env.Actor{}, p.Replicas...), p.Clients...) {
		ids = append(ids, tlc.Render(a.Self))
		pcs = append(pcs, pcOf(a))
	}
	st["pc"] = fnOver(ids, pcs)
	rl := func(name, local string) {
		var i, v []string
		for _, a := range p.Replicas {
			i = append(i, tlc.Render(a.Self))
			v = append(v, localOr(a, "AReplica."+local))
		}
		st[name] = fnOver(i, v)
	}
	for _, l := range []string{"req", "respBody", "respTyp", "idx", "repReq", "repResp", "resp", "replicaSet", "shouldSync", "lastPutBody", "replica"} {
		rl(l, l)
	}
	cl := func(name, local string) {
		var i, v []string
		for _, a := range p.Clients {
			i = append(i, tlc.Render(a.Self))
			v = append(v, localOr(a, "AClient."+local))
		}
		st[name] = fnOver(i, v)
	}
	cl("req0", "req")
	cl("resp0", "resp")
	cl("msg", "msg")
	cl("replica0", "replica")
	cl("idx0", "idx")
	return st
}
