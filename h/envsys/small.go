package envsys

import (
	"fmt"

	"github.com/DistCompiler/pgo/distsys"
	"github.com/DistCompiler/pgo/distsys/tla"
	"github.com/DistCompiler/pgo/systems/dqueue"
	"github.com/DistCompiler/pgo/systems/loadbalancer"
	"github.com/DistCompiler/pgo/systems/proxy"

	"verif/env"
	"verif/sim"
	"verif/tlc"
)

// tcpChannel is the TCPChannel mapping macro of dqueue.tla / load_balancer.tla:
//   read  { await Len($variable) > 0; with (msg = Head($variable)) { $variable := Tail($variable); yield msg; } }
//   write { await Len($variable) < BUFFER_SIZE; yield Append($variable, $value); }
func tcpChannel(wd *env.World, varName string, bufferSize int) *env.Res {
	return wd.NewRes(varName,
		func(wd *env.World, idx []tla.Value) (tla.Value, error) {
			q := env.FnGet(wd.Get(varName), idx[0])
			if q.AsTuple().Len() == 0 {
				return tla.Value{}, env.Abort
			}
			wd.Set(varName, env.FnSet(wd.Get(varName), idx[0], tla.ModuleTail(q)))
			return tla.ModuleHead(q), nil
		},
		func(wd *env.World, idx []tla.Value, v tla.Value) error {
			q := env.FnGet(wd.Get(varName), idx[0])
			if q.AsTuple().Len() >= bufferSize {
				return env.Abort
			}
			wd.Set(varName, env.FnSet(wd.Get(varName), idx[0], tla.ModuleAppend(q, v)))
			return nil
		})
}

// ---------------------------------------------------------------------------------
// dqueue.tla

type DQueue struct {
	WD         *env.World
	NC, Buffer int
	Producer   *env.Actor
	Consumers  []*env.Actor
}

// NewDQueue wires systems/dqueue. unique replaces CyclicReads' modulus by a plain counter so
// that every produced item is attributable (C16); the TLC oracle (C02) uses the macro as written.
func NewDQueue(wd *env.World, nc, buffer int, unique bool) *DQueue {
	d := &DQueue{WD: wd, NC: nc, Buffer: buffer}
	var nodes []tla.Value
	for i := 0; i <= nc; i++ {
		nodes = append(nodes, num(i))
	}
	wd.Vars["network"] = fnOverSet(nodes, func(tla.Value) tla.Value { return tla.MakeTuple() })
	wd.Vars["processor"] = num(0)
	wd.Vars["stream"] = num(0)
	consts := distsys.EnsureMPCalContextConfigs(
		distsys.DefineConstantValue("NUM_CONSUMERS", num(nc)),
		distsys.DefineConstantValue("PRODUCER", num(0)),
		distsys.DefineConstantValue("BUFFER_SIZE", num(buffer)),
	)
	// CyclicReads: read { $variable := ($variable + 1) % BUFFER_SIZE; yield $variable; }
	stream := wd.NewRes("stream",
		func(wd *env.World, idx []tla.Value) (tla.Value, error) {
			v := tla.MakeNumber((wd.Get("stream").AsNumber() + 1) % int32(buffer))
			if unique {
				v = tla.MakeNumber(wd.Get("stream").AsNumber() + 1)
			}
			wd.Set("stream", v)
			return v, nil
		},
		func(wd *env.World, idx []tla.Value, v tla.Value) error { return nil })
	d.Producer = wd.AddActor("producer", num(0), dqueue.AProducer, nil, consts,
		distsys.EnsureArchetypeRefParam("net", tcpChannel(wd, "network", buffer)), distsys.EnsureArchetypeRefParam("s", stream))
	for i := 1; i <= nc; i++ {
		d.Consumers = append(d.Consumers, wd.AddActor(fmt.Sprintf("consumer%d", i), num(i), dqueue.AConsumer, nil, consts,
			distsys.EnsureArchetypeRefParam("net", tcpChannel(wd, "network", buffer)), distsys.EnsureArchetypeRefParam("proc", wd.PlainVar("processor"))))
	}
	return d
}

func (d *DQueue) TLCSystem(repo string) tlc.System {
	return tlc.System{Name: "dqueue", SpecPath: repo + "/systems/dqueue/dqueue.tla",
		Vars:   []string{"network", "processor", "stream", "pc", "requester"},
		Consts: map[string]string{"BUFFER_SIZE": fmt.Sprint(d.Buffer), "NUM_CONSUMERS": fmt.Sprint(d.NC), "PRODUCER": "0", "defaultInitValue": "defaultInitValue"}}
}

func (d *DQueue) State() tlc.State {
	ids := []string{"0"}
	pcs := []string{pcOf(d.Producer)}
	for _, c := range d.Consumers {
		ids = append(ids, tlc.Render(c.Self))
		pcs = append(pcs, pcOf(c))
	}
	return tlc.State{"network": tlc.Render(d.WD.Vars["network"]), "processor": tlc.Render(d.WD.Vars["processor"]), "stream": tlc.Render(d.WD.Vars["stream"]),
		"pc": fnOver(ids, pcs), "requester": fnOver([]string{"0"}, []string{localOr(d.Producer, "AProducer.requester")})}
}

// ---------------------------------------------------------------------------------
// load_balancer.tla

type LoadBalancer struct {
	WD         *env.World
	NS, NC, Buffer int
	LB         *env.Actor
	Servers    []*env.Actor
	Clients    []*env.Actor
}

// PageFor is the page the simulated file system holds for a path (unique paths mode).
func PageFor(path tla.Value) tla.Value { return tla.MakeTuple(str("page"), path) }

// NewLoadBalancer wires systems/loadbalancer. unique makes every request path distinct and
// the page a function of the path (as the real FileSystem resource does), so that responses
// are attributable (C16); otherwise instream is the plain variable `in` and WebPages yields
// WEB_PAGE, as written in the spec (C02).
func NewLoadBalancer(wd *env.World, ns, nc, buffer int, unique bool) *LoadBalancer {
	l := &LoadBalancer{WD: wd, NS: ns, NC: nc, Buffer: buffer}
	var nodes []tla.Value
	for i := 0; i <= ns+nc; i++ {
		nodes = append(nodes, num(i))
	}
	wd.Vars["network"] = fnOverSet(nodes, func(tla.Value) tla.Value { return tla.MakeTuple() })
	wd.Vars["in"] = num(0)
	wd.Vars["out"] = num(0)
	consts := distsys.EnsureMPCalContextConfigs(
		distsys.DefineConstantValue("NUM_SERVERS", num(ns)), distsys.DefineConstantValue("NUM_CLIENTS", num(nc)),
		distsys.DefineConstantValue("LoadBalancerId", num(0)), distsys.DefineConstantValue("GET_PAGE", num(200)),
		distsys.DefineConstantValue("WEB_PAGE", num(42)), distsys.DefineConstantValue("BUFFER_SIZE", num(buffer)),
	)
	webPages := wd.NewRes("fs",
		func(wd *env.World, idx []tla.Value) (tla.Value, error) {
			if unique {
				return PageFor(idx[0]), nil
			}
			return num(42), nil
		},
		func(*env.World, []tla.Value, tla.Value) error { return env.AssertFail("write to WebPages") })
	l.LB = wd.AddActor("lb", num(0), loadbalancer.ALoadBalancer, nil, consts, distsys.EnsureArchetypeRefParam("mailboxes", tcpChannel(wd, "network", buffer)))
	for i := 1; i <= ns; i++ {
		l.Servers = append(l.Servers, wd.AddActor(fmt.Sprintf("server%d", i), num(i), loadbalancer.AServer, nil, consts,
			distsys.EnsureArchetypeRefParam("mailboxes", tcpChannel(wd, "network", buffer)), distsys.EnsureArchetypeRefParam("file_system", webPages)))
	}
	var instream distsys.ArchetypeResource = wd.PlainVar("in")
	if unique {
		n := int32(0)
		instream = wd.NewRes("in", func(wd *env.World, idx []tla.Value) (tla.Value, error) { n++; return tla.MakeNumber(n), nil },
			func(*env.World, []tla.Value, tla.Value) error { return env.AssertFail("write to instream") })
	}
	for k := 1; k <= nc; k++ {
		l.Clients = append(l.Clients, wd.AddActor(fmt.Sprintf("client%d", k), num(ns+k), loadbalancer.AClient, nil, consts,
			distsys.EnsureArchetypeRefParam("mailboxes", tcpChannel(wd, "network", buffer)),
			distsys.EnsureArchetypeRefParam("instream", instream), distsys.EnsureArchetypeRefParam("outstream", wd.PlainVar("out"))))
	}
	return l
}

func (l *LoadBalancer) TLCSystem(repo string) tlc.System {
	return tlc.System{Name: "load_balancer", SpecPath: repo + "/systems/loadbalancer/load_balancer.tla", Retranslate: true,
		Vars: []string{"pc", "network", "in", "out", "fs", "msg", "next", "msg0", "req", "resp"},
		Consts: map[string]string{"BUFFER_SIZE": fmt.Sprint(l.Buffer), "NUM_SERVERS": fmt.Sprint(l.NS), "NUM_CLIENTS": fmt.Sprint(l.NC), "LoadBalancerId": "0",
			"GET_PAGE": "200", "WEB_PAGE": "42", "defaultInitValue": "defaultInitValue"}}
}

func (l *LoadBalancer) State() tlc.State {
	ids := []string{"0"}
	pcs := []string{pcOf(l.LB)}
	var sids, smsg, cids, creq, cresp []string
	for _, a := range l.Servers {
		ids = append(ids, tlc.Render(a.Self))
		pcs = append(pcs, pcOf(a))
		sids = append(sids, tlc.Render(a.Self))
		smsg = append(smsg, localOr(a, "AServer.msg"))
	}
	for _, a := range l.Clients {
		ids = append(ids, tlc.Render(a.Self))
		pcs = append(pcs, pcOf(a))
		cids = append(cids, tlc.Render(a.Self))
		creq = append(creq, localOr(a, "AClient.req"))
		cresp = append(cresp, localOr(a, "AClient.resp"))
	}
	return tlc.State{"pc": fnOver(ids, pcs), "network": tlc.Render(l.WD.Vars["network"]), "in": tlc.Render(l.WD.Vars["in"]), "out": tlc.Render(l.WD.Vars["out"]),
		"fs": "(0 :> 42)", "msg": localOr(l.LB, "ALoadBalancer.msg"), "next": localOr(l.LB, "ALoadBalancer.next"),
		"msg0": fnOver(sids, smsg), "req": fnOver(cids, creq), "resp": fnOver(cids, cresp)}
}

// ---------------------------------------------------------------------------------
// proxy.tla

type Proxy struct {
	WD      *env.World
	NS, NC  int
	Explore bool
	Perfect bool // PerfectFD (the property's hypothesis) instead of the spec's PracticalFD
	Proxy   *env.Actor
	Servers []*env.Actor
	Clients []*env.Actor
	Inputs  []string // per client: name of the world variable holding the Requests counter (spec local `input`)
}

func NewProxy(wd *env.World, ns, nc int, explore, perfect bool) *Proxy {
	p := &Proxy{WD: wd, NS: ns, NC: nc, Explore: explore, Perfect: perfect}
	nn := ns + nc + 1
	var nodes, keys []tla.Value
	for i := 1; i <= nn; i++ {
		nodes = append(nodes, num(i))
		for t := 1; t <= 4; t++ {
			keys = append(keys, tla.MakeTuple(num(i), num(t)))
		}
	}
	wd.Vars["network"] = fnOverSet(keys, func(tla.Value) tla.Value { return rec("queue", tla.MakeTuple(), "enabled", tla.ModuleTRUE) })
	wd.Vars["fd"] = fnOverSet(nodes, func(tla.Value) tla.Value { return tla.ModuleFALSE })
	wd.Vars["output"] = tla.MakeTuple()
	net := func() *env.Res {
		return wd.NewRes("net",
			func(wd *env.World, idx []tla.Value) (tla.Value, error) {
				box := env.FnGet(wd.Get("network"), idx[0])
				if !box.ApplyFunction(str("enabled")).AsBool() {
					return tla.Value{}, env.AssertFail("$variable.enabled")
				}
				q := box.ApplyFunction(str("queue"))
				if q.AsTuple().Len() == 0 {
					return tla.Value{}, env.Abort
				}
				wd.Set("network", env.FnSet(wd.Get("network"), idx[0], rec("queue", tla.ModuleTail(q), "enabled", tla.ModuleTRUE)))
				return tla.ModuleHead(q), nil
			},
			func(wd *env.World, idx []tla.Value, v tla.Value) error {
				box := env.FnGet(wd.Get("network"), idx[0])
				if !box.ApplyFunction(str("enabled")).AsBool() {
					return env.Abort
				}
				wd.Set("network", env.FnSet(wd.Get("network"), idx[0], rec("queue", tla.ModuleAppend(box.ApplyFunction(str("queue")), v), "enabled", tla.ModuleTRUE)))
				return nil
			})
	}
	alive := func(i int) bool {
		a := p.Servers[i-1]
		return !a.Done() && a.PC != "AServer.failLabel" && a.PC != "AServer.Done"
	}
	netEnabled := func() *env.Res {
		return wd.NewRes("netEnabled",
			func(wd *env.World, idx []tla.Value) (tla.Value, error) {
				return env.FnGet(wd.Get("network"), idx[0]).ApplyFunction(str("enabled")), nil
			},
			func(wd *env.World, idx []tla.Value, v tla.Value) error {
				if !v.AsBool() {
					// crashes are rare events; any number of backends may crash (the property
					// speaks of every sequence of backend crashes)
					if wd.W.ChooseP(sim.KFault, 4, 0.75) == 0 {
						return env.Abort
					}
					_ = alive
				}
				box := env.FnGet(wd.Get("network"), idx[0])
				wd.Set("network", env.FnSet(wd.Get("network"), idx[0], rec("queue", box.ApplyFunction(str("queue")), "enabled", v)))
				return nil
			})
	}
	fd := func() *env.Res {
		return wd.NewRes("fd",
			func(wd *env.World, idx []tla.Value) (tla.Value, error) {
				cur := env.FnGet(wd.Get("fd"), idx[0])
				if !p.Perfect && !cur.AsBool() {
					return tla.MakeBool(wd.Choose(2) == 1), nil // PracticalFD: no accuracy guarantee
				}
				return cur, nil
			},
			func(wd *env.World, idx []tla.Value, v tla.Value) error {
				wd.Set("fd", env.FnSet(wd.Get("fd"), idx[0], v))
				return nil
			})
	}
	consts := distsys.EnsureMPCalContextConfigs(
		distsys.DefineConstantValue("NUM_SERVERS", num(ns)), distsys.DefineConstantValue("NUM_CLIENTS", num(nc)),
		distsys.DefineConstantValue("EXPLORE_FAIL", tla.MakeBool(explore)), distsys.DefineConstantValue("CLIENT_RUN", tla.ModuleTRUE),
	)
	p.Proxy = wd.AddActor("proxy", num(nn), proxy.AProxy, nil, consts, distsys.EnsureArchetypeRefParam("net", net()), distsys.EnsureArchetypeRefParam("fd", fd()))
	for i := 1; i <= ns; i++ {
		p.Servers = append(p.Servers, wd.AddActor(fmt.Sprintf("server%d", i), num(i), proxy.AServer, nil, consts,
			distsys.EnsureArchetypeRefParam("net", net()), distsys.EnsureArchetypeRefParam("netEnabled", netEnabled()), distsys.EnsureArchetypeRefParam("fd", fd())))
	}
	for k := 1; k <= nc; k++ {
		// Requests: read { with (value = $variable) { $variable := $variable + 1; yield value; } }
		// the client's local `input` of the PlusCal translation, kept with the world's variables so
		// that an aborted attempt does not consume a value
		iv := fmt.Sprintf("input%d", ns+k)
		wd.Vars[iv] = num(0)
		p.Inputs = append(p.Inputs, iv)
		input := wd.NewRes("input",
			func(wd *env.World, idx []tla.Value) (tla.Value, error) {
				v := wd.Get(iv)
				wd.Set(iv, tla.MakeNumber(v.AsNumber()+1))
				return v, nil
			},
			func(*env.World, []tla.Value, tla.Value) error { return env.AssertFail("write to Requests") })
		p.Clients = append(p.Clients, wd.AddActor(fmt.Sprintf("client%d", k), num(ns+k), proxy.AClient, nil, consts,
			distsys.EnsureArchetypeRefParam("net", net()), distsys.EnsureArchetypeRefParam("input", input), distsys.EnsureArchetypeRefParam("output", wd.PlainVar("output"))))
	}
	return p
}

// ServerGone: pc[server] = "failLabel" \/ pc[server] = "Done"
func (p *Proxy) ServerGone(i int) bool {
	a := p.Servers[i-1]
	return a.Done() || a.PC == "AServer.failLabel" || a.PC == "AServer.Done"
}

func (p *Proxy) TLCSystem(repo string) tlc.System {
	return tlc.System{Name: "proxy", SpecPath: repo + "/systems/proxy/proxy.tla", Retranslate: true,
		Vars: []string{"pc", "network", "fd", "output", "msg", "proxyMsg", "idx", "resp", "proxyResp", "msg0", "resp0", "req", "resp1", "reqId", "input"},
		Consts: map[string]string{"NUM_SERVERS": fmt.Sprint(p.NS), "NUM_CLIENTS": fmt.Sprint(p.NC), "EXPLORE_FAIL": map[bool]string{true: "TRUE", false: "FALSE"}[p.Explore],
			"CLIENT_RUN": "TRUE", "defaultInitValue": "defaultInitValue"}}
}

func (p *Proxy) State() tlc.State {
	ids := []string{tlc.Render(p.Proxy.Self)}
	pcs := []string{pcOf(p.Proxy)}
	var sids, smsg, sresp, cids, creq, cresp, cid, cin []string
	for _, a := range p.Servers {
		ids = append(ids, tlc.Render(a.Self))
		pcs = append(pcs, pcOf(a))
		sids = append(sids, tlc.Render(a.Self))
		smsg = append(smsg, localOr(a, "AServer.msg"))
		sresp = append(sresp, localOr(a, "AServer.resp"))
	}
	for k, a := range p.Clients {
		ids = append(ids, tlc.Render(a.Self))
		pcs = append(pcs, pcOf(a))
		cids = append(cids, tlc.Render(a.Self))
		creq = append(creq, localOr(a, "AClient.req"))
		cresp = append(cresp, localOr(a, "AClient.resp"))
		cid = append(cid, localOr(a, "AClient.reqId"))
		cin = append(cin, tlc.Render(p.WD.Vars[p.Inputs[k]]))
	}
	V := p.WD.Vars
	return tlc.State{"pc": fnOver(ids, pcs), "network": tlc.Render(V["network"]), "fd": tlc.Render(V["fd"]), "output": tlc.Render(V["output"]),
		"msg": localOr(p.Proxy, "AProxy.msg"), "proxyMsg": localOr(p.Proxy, "AProxy.proxyMsg"), "idx": localOr(p.Proxy, "AProxy.idx"),
		"resp": localOr(p.Proxy, "AProxy.resp"), "proxyResp": localOr(p.Proxy, "AProxy.proxyResp"),
		"msg0": fnOver(sids, smsg), "resp0": fnOver(sids, sresp), "req": fnOver(cids, creq), "resp1": fnOver(cids, cresp), "reqId": fnOver(cids, cid), "input": fnOver(cids, cin)}
}
