package envsys

import (
	"fmt"

	"github.com/DistCompiler/pgo/distsys"
	"github.com/DistCompiler/pgo/distsys/tla"
	"github.com/DistCompiler/pgo/systems/shopcart"

	"verif/env"
	"verif/sim"
	"verif/tlc"
)

// ShopCart wires systems/shopcart (archetype ANodeBench, the one the spec instantiates) to
// the spec world of shopcart.tla: crdt via the AWORSet mapping macro to the letter, c and
// out plain; the spec's UpdateCRDT process (no generated code) is transcribed in MergeStep.
type ShopCart struct {
	WD     *env.World
	N, R   int
	Nodes  []*env.Actor
	elems  []tla.Value
	nodeIDs []tla.Value
}

func (s *ShopCart) null() tla.Value {
	return fnOverSet(s.nodeIDs, func(tla.Value) tla.Value { return num(0) })
}

// CompareVectorClock(v1, v2) == \A i \in DOMAIN v1: v1[i] <= v2[i]
func (s *ShopCart) le(v1, v2 tla.Value) bool {
	for _, i := range s.nodeIDs {
		if v1.ApplyFunction(i).AsNumber() > v2.ApplyFunction(i).AsNumber() {
			return false
		}
	}
	return true
}

func (s *ShopCart) mergeVC(v1, v2 tla.Value) tla.Value {
	return fnOverSet(s.nodeIDs, func(i tla.Value) tla.Value {
		if v1.ApplyFunction(i).AsNumber() > v2.ApplyFunction(i).AsNumber() {
			return v1.ApplyFunction(i)
		}
		return v2.ApplyFunction(i)
	})
}

func NewShopCart(wd *env.World, n, rounds int) *ShopCart {
	s := &ShopCart{WD: wd, N: n, R: rounds}
	for i := 1; i <= n; i++ {
		s.nodeIDs = append(s.nodeIDs, num(i))
	}
	for e := 0; e < n*rounds; e++ {
		s.elems = append(s.elems, num(e))
	}
	null := s.null()
	empty := fnOverSet(s.elems, func(tla.Value) tla.Value { return null })
	wd.Vars["crdt"] = fnOverSet(s.nodeIDs, func(tla.Value) tla.Value { return rec("addMap", empty, "remMap", empty) })
	wd.Vars["c"] = fnOverSet(s.nodeIDs, func(tla.Value) tla.Value { return tla.MakeSet() })
	wd.Vars["out"] = tla.Value{}
	addK, remK := str("addMap"), str("remMap")
	for i := 1; i <= n; i++ {
		self := num(i)
		crdt := wd.NewRes("crdt",
			func(wd *env.World, idx []tla.Value) (tla.Value, error) { // yield Query($variable)
				r := env.FnGet(wd.Get("crdt"), idx[0])
				var q []tla.Value
				for _, e := range s.elems {
					if !s.le(r.ApplyFunction(addK).ApplyFunction(e), r.ApplyFunction(remK).ApplyFunction(e)) {
						q = append(q, e)
					}
				}
				return tla.MakeSet(q...), nil
			},
			func(wd *env.World, idx []tla.Value, v tla.Value) error {
				r := env.FnGet(wd.Get("crdt"), idx[0])
				am, rm := r.ApplyFunction(addK), r.ApplyFunction(remK)
				e := v.ApplyFunction(str("elem"))
				cmd := v.ApplyFunction(str("cmd")).AsNumber()
				bump := func(m tla.Value, base tla.Value) tla.Value { // m[e][self] := base[e][self] + 1
					return env.FnSet(m, e, env.FnSet(m.ApplyFunction(e), self, tla.MakeNumber(base.ApplyFunction(e).ApplyFunction(self).AsNumber()+1)))
				}
				switch cmd {
				case 1: // AddCmd
					switch {
					case !am.ApplyFunction(e).Equal(null):
						am = bump(am, am)
						rm = env.FnSet(rm, e, null)
					case !rm.ApplyFunction(e).Equal(null):
						am = bump(am, rm)
						rm = env.FnSet(rm, e, null)
					default:
						am = env.FnSet(am, e, env.FnSet(am.ApplyFunction(e), self, num(1)))
					}
				case 2: // RemoveCmd
					switch {
					case !rm.ApplyFunction(e).Equal(null):
						rm = bump(rm, rm)
						am = env.FnSet(am, e, null)
					case !am.ApplyFunction(e).Equal(null):
						rm = bump(rm, am)
						am = env.FnSet(am, e, null)
					default:
						rm = env.FnSet(rm, e, env.FnSet(rm.ApplyFunction(e), self, num(1)))
					}
				}
				wd.Set("crdt", env.FnSet(wd.Get("crdt"), idx[0], rec("addMap", am, "remMap", rm)))
				return nil
			})
		s.Nodes = append(s.Nodes, wd.AddActor(fmt.Sprintf("node%d", i), self, shopcart.ANodeBench, nil,
			distsys.DefineConstantValue("NumNodes", num(n)), distsys.DefineConstantValue("ElemSet", tla.MakeSet(s.elems...)),
			distsys.DefineConstantValue("BenchNumRounds", num(rounds)),
			distsys.EnsureArchetypeRefParam("crdt", crdt), distsys.EnsureArchetypeRefParam("out", wd.PlainVar("out")), distsys.EnsureArchetypeRefParam("c", wd.PlainVar("c"))))
	}
	return s
}

func (s *ShopCart) differing() [][2]int {
	var pairs [][2]int
	cr := s.WD.Vars["crdt"]
	for i := 1; i <= s.N; i++ {
		for j := 1; j <= s.N; j++ {
			if !cr.ApplyFunction(num(i)).Equal(cr.ApplyFunction(num(j))) {
				pairs = append(pairs, [2]int{i, j})
			}
		}
	}
	return pairs
}

func (s *ShopCart) MergeEnabled() bool { return len(s.differing()) > 0 }

// MergeStep is label l1 of process UpdateCRDT (macro Merge of the spec).
func (s *ShopCart) MergeStep(w *sim.World) string {
	pairs := s.differing()
	p := pairs[w.Choose(sim.KEither, len(pairs))]
	cr := s.WD.Vars["crdt"]
	a, b := cr.ApplyFunction(num(p[0])), cr.ApplyFunction(num(p[1]))
	addK, remK := str("addMap"), str("remMap")
	null := s.null()
	addk := fnOverSet(s.elems, func(e tla.Value) tla.Value { return s.mergeVC(a.ApplyFunction(addK).ApplyFunction(e), b.ApplyFunction(addK).ApplyFunction(e)) })
	remk := fnOverSet(s.elems, func(e tla.Value) tla.Value { return s.mergeVC(a.ApplyFunction(remK).ApplyFunction(e), b.ApplyFunction(remK).ApplyFunction(e)) })
	add := fnOverSet(s.elems, func(e tla.Value) tla.Value {
		if s.le(addk.ApplyFunction(e), remk.ApplyFunction(e)) {
			return null
		}
		return addk.ApplyFunction(e)
	})
	rem := fnOverSet(s.elems, func(e tla.Value) tla.Value {
		if s.le(addk.ApplyFunction(e), remk.ApplyFunction(e)) {
			return remk.ApplyFunction(e)
		}
		return null
	})
	res := rec("addMap", add, "remMap", rem)
	s.WD.Vars["crdt"] = env.FnSet(env.FnSet(cr, num(p[0]), res), num(p[1]), res)
	c := s.WD.Vars["c"]
	cn := tla.ModuleUnionSymbol(c.ApplyFunction(num(p[0])), c.ApplyFunction(num(p[1])))
	s.WD.Vars["c"] = env.FnSet(env.FnSet(c, num(p[0]), cn), num(p[1]), cn)
	s.WD.Version++
	return fmt.Sprintf("UpdateCRDT l1 (%d,%d)", p[0], p[1])
}

func (s *ShopCart) TLCSystem(repo string) tlc.System {
	es := "{"
	for i := range s.elems {
		if i > 0 {
			es += ", "
		}
		es += fmt.Sprint(i)
	}
	es += "}"
	return tlc.System{Name: "shopcart", SpecPath: repo + "/systems/shopcart/shopcart.tla", Vars: []string{"crdt", "in", "out", "c", "pc", "r"},
		Consts: map[string]string{"NumNodes": fmt.Sprint(s.N), "ElemSet": es, "BenchNumRounds": fmt.Sprint(s.R), "defaultInitValue": "defaultInitValue"}}
}

func (s *ShopCart) State() tlc.State {
	ids := []string{"0"}
	pcs := []string{`"l1"`}
	var nids, rs []string
	for _, a := range s.Nodes {
		ids = append(ids, tlc.Render(a.Self))
		pcs = append(pcs, pcOf(a))
		nids = append(nids, tlc.Render(a.Self))
		rs = append(rs, localOr(a, "ANodeBench.r"))
	}
	return tlc.State{"crdt": tlc.Render(s.WD.Vars["crdt"]), "c": tlc.Render(s.WD.Vars["c"]), "out": tlc.Render(s.WD.Vars["out"]),
		"in": `<<[cmd |-> 1, elem |-> "1"], [cmd |-> 2, elem |-> "2"], [cmd |-> 1, elem |-> "2"], [cmd |-> 2, elem |-> "1"]>>`,
		"pc": fnOver(ids, pcs), "r": fnOver(nids, rs)}
}
