package envsys

import (
	"fmt"

	"github.com/DistCompiler/pgo/distsys"
	"github.com/DistCompiler/pgo/distsys/tla"
	"github.com/DistCompiler/pgo/systems/gcounter"
	"github.com/DistCompiler/pgo/systems/shcounter"

	"verif/env"
	"verif/sim"
	"verif/tlc"
)

// ShCounter wires systems/shcounter to the spec world of shcounter.tla: one global cntr with
// the default read/write semantics (the spec omits a mapping macro for it).
type ShCounter struct {
	WD    *env.World
	N     int
	Nodes []*env.Actor
}

func NewShCounter(wd *env.World, n int) *ShCounter {
	s := &ShCounter{WD: wd, N: n}
	wd.Vars["cntr"] = num(0)
	for i := 1; i <= n; i++ {
		s.Nodes = append(s.Nodes, wd.AddActor(fmt.Sprintf("node%d", i), num(i), shcounter.ANode, nil,
			distsys.DefineConstantValue("NUM_NODES", num(n)), distsys.EnsureArchetypeRefParam("cntr", wd.PlainVar("cntr"))))
	}
	return s
}

func (s *ShCounter) TLCSystem(repo string) tlc.System {
	return tlc.System{Name: "shcounter", SpecPath: repo + "/systems/shcounter/shcounter.tla", Vars: []string{"cntr", "pc"},
		Consts: map[string]string{"NUM_NODES": fmt.Sprint(s.N)}}
}

func (s *ShCounter) State() tlc.State {
	var ids, pcs []string
	for _, a := range s.Nodes {
		ids = append(ids, tlc.Render(a.Self))
		pcs = append(pcs, pcOf(a))
	}
	return tlc.State{"cntr": tlc.Render(s.WD.Vars["cntr"]), "pc": fnOver(ids, pcs)}
}

// GCounter wires systems/gcounter (archetype ANode) to the spec world of gcounter.tla:
// localcntrs via LocalGCntr, c via CasualHistory; the spec's UpdateGCntr process (a plain
// PlusCal process without generated code) is transcribed in MergeStep.
type GCounter struct {
	WD    *env.World
	N     int
	Nodes []*env.Actor
}

func NewGCounter(wd *env.World, n int) *GCounter {
	g := &GCounter{WD: wd, N: n}
	var ids []tla.Value
	for i := 1; i <= n; i++ {
		ids = append(ids, num(i))
	}
	wd.Vars["localcntrs"] = fnOverSet(ids, func(tla.Value) tla.Value { return fnOverSet(ids, func(tla.Value) tla.Value { return num(0) }) })
	wd.Vars["c"] = fnOverSet(ids, func(tla.Value) tla.Value { return tla.MakeSet() })
	for i := 1; i <= n; i++ {
		self := num(i)
		cntr := wd.NewRes("cntr",
			func(wd *env.World, idx []tla.Value) (tla.Value, error) { // yield SUM($variable, DOMAIN $variable)
				v := env.FnGet(wd.Get("localcntrs"), idx[0])
				var sum int32
				it := v.AsFunction().Iterator()
				for !it.Done() {
					_, e, _ := it.Next()
					sum += e.AsNumber()
				}
				return tla.MakeNumber(sum), nil
			},
			func(wd *env.World, idx []tla.Value, v tla.Value) error {
				if !(v.AsNumber() > 0) {
					return env.AssertFail("$value > 0")
				}
				cur := env.FnGet(wd.Get("localcntrs"), idx[0])
				wd.Set("localcntrs", env.FnSet(wd.Get("localcntrs"), idx[0], env.FnSet(cur, self, tla.MakeNumber(cur.ApplyFunction(self).AsNumber()+v.AsNumber()))))
				return nil
			})
		hist := wd.NewRes("c",
			func(wd *env.World, idx []tla.Value) (tla.Value, error) { return env.FnGet(wd.Get("c"), idx[0]), nil },
			func(wd *env.World, idx []tla.Value, v tla.Value) error {
				wd.Set("c", env.FnSet(wd.Get("c"), idx[0], tla.ModuleUnionSymbol(env.FnGet(wd.Get("c"), idx[0]), v)))
				return nil
			})
		g.Nodes = append(g.Nodes, wd.AddActor(fmt.Sprintf("node%d", i), self, gcounter.ANode, nil,
			distsys.DefineConstantValue("NUM_NODES", num(n)), distsys.DefineConstantValue("BENCH_NUM_ROUNDS", num(0)),
			distsys.EnsureArchetypeRefParam("cntr", cntr), distsys.EnsureArchetypeRefParam("c", hist)))
	}
	return g
}

// MergeEnabled: some pair of replicas differs.
func (g *GCounter) MergeEnabled() bool {
	for i := 1; i <= g.N; i++ {
		for j := 1; j <= g.N; j++ {
			if !g.WD.Vars["localcntrs"].ApplyFunction(num(i)).Equal(g.WD.Vars["localcntrs"].ApplyFunction(num(j))) {
				return true
			}
		}
	}
	return false
}

// MergeStep is label l1 of process UpdateGCntr: with i1, i2 (localcntrs[i2] # localcntrs[i1])
// both take the pointwise maximum, and both causal histories their union.
func (g *GCounter) MergeStep(w *sim.World) string {
	lc := g.WD.Vars["localcntrs"]
	var pairs [][2]int
	for i := 1; i <= g.N; i++ {
		for j := 1; j <= g.N; j++ {
			if !lc.ApplyFunction(num(i)).Equal(lc.ApplyFunction(num(j))) {
				pairs = append(pairs, [2]int{i, j})
			}
		}
	}
	p := pairs[w.Choose(sim.KEither, len(pairs))]
	a, b := lc.ApplyFunction(num(p[0])), lc.ApplyFunction(num(p[1]))
	res := a
	for k := 1; k <= g.N; k++ {
		if b.ApplyFunction(num(k)).AsNumber() > res.ApplyFunction(num(k)).AsNumber() {
			res = env.FnSet(res, num(k), b.ApplyFunction(num(k)))
		}
	}
	lc = env.FnSet(env.FnSet(lc, num(p[0]), res), num(p[1]), res)
	g.WD.Vars["localcntrs"] = lc
	c := g.WD.Vars["c"]
	cn := tla.ModuleUnionSymbol(c.ApplyFunction(num(p[0])), c.ApplyFunction(num(p[1])))
	g.WD.Vars["c"] = env.FnSet(env.FnSet(c, num(p[0]), cn), num(p[1]), cn)
	g.WD.Version++
	return fmt.Sprintf("UpdateGCntr l1 (%d,%d)", p[0], p[1])
}

func (g *GCounter) TLCSystem(repo string) tlc.System {
	return tlc.System{Name: "gcounter", SpecPath: repo + "/systems/gcounter/gcounter.tla", Vars: []string{"localcntrs", "c", "out", "pc"},
		Consts: map[string]string{"NUM_NODES": fmt.Sprint(g.N), "BENCH_NUM_ROUNDS": "0", "defaultInitValue": "defaultInitValue"}}
}

func (g *GCounter) State() tlc.State {
	ids := []string{"0"}
	pcs := []string{`"l1"`}
	for _, a := range g.Nodes {
		ids = append(ids, tlc.Render(a.Self))
		pcs = append(pcs, pcOf(a))
	}
	return tlc.State{"localcntrs": tlc.Render(g.WD.Vars["localcntrs"]), "c": tlc.Render(g.WD.Vars["c"]), "out": "defaultInitValue", "pc": fnOver(ids, pcs)}
}
