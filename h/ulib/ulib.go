// Package ulib holds what the level-U harnesses share: a fault-injecting/recording
// wrapper around any real resource, a tiny program representation executed through
// ArchetypeInterface the way generated code does, reference models of the committed
// abstract state per resource kind, and an in-memory trace recorder.
package ulib

import (
	"fmt"
	"strings"

	"github.com/DistCompiler/pgo/distsys"
	"github.com/DistCompiler/pgo/distsys/tla"
	"github.com/DistCompiler/pgo/distsys/trace"

	"verif/sim"
)

// ---------------------------------------------------------------------------------
// Faulty: forwards every call to the real resource; can refuse one operation of the
// attempt in flight with ErrCriticalSectionAborted, the way any resource may.

type FaultPlan struct {
	Method string // "read", "write", "index", "precommit" ("" = none)
	Nth    int    // 0-based occurrence within the attempt
}

type Faulty struct {
	Inner distsys.ArchetypeResource
	Name  string
	W     *sim.World
	Plan  FaultPlan
	seen  map[string]int
	Fired bool
	Calls []string // per attempt
	// children created through Index share the plan accounting
	parent *Faulty
}

func NewFaulty(w *sim.World, name string, inner distsys.ArchetypeResource) *Faulty {
	return &Faulty{Inner: inner, Name: name, W: w, seen: map[string]int{}}
}

func (f *Faulty) root() *Faulty {
	if f.parent != nil {
		return f.parent.root()
	}
	return f
}

// Arm sets the fault for the next attempt and clears per-attempt counters.
func (f *Faulty) Arm(p FaultPlan) {
	f.Plan = p
	f.seen = map[string]int{}
	f.Fired = false
	f.Calls = f.Calls[:0]
}

func (f *Faulty) hit(method string) bool {
	r := f.root()
	n := r.seen[method]
	r.seen[method] = n + 1
	r.Calls = append(r.Calls, method)
	if r.Plan.Method == method && r.Plan.Nth == n && !r.Fired {
		r.Fired = true
		r.W.Fault("resource_refuses_" + method)
		return true
	}
	return false
}

func (f *Faulty) Abort(iface distsys.ArchetypeInterface) chan struct{} { return f.Inner.Abort(iface) }

func (f *Faulty) PreCommit(iface distsys.ArchetypeInterface) chan error {
	if f.hit("precommit") {
		// the inner resource is asked too (it may hold state for the handshake), then
		// the verdict is overridden
		inner := f.Inner.PreCommit(iface)
		ch := make(chan error, 1)
		if inner != nil {
			sim.Yield()
			<-inner
			sim.Yield()
		}
		ch <- distsys.ErrCriticalSectionAborted
		return ch
	}
	return f.Inner.PreCommit(iface)
}

func (f *Faulty) Commit(iface distsys.ArchetypeInterface) chan struct{} { return f.Inner.Commit(iface) }

func (f *Faulty) ReadValue(iface distsys.ArchetypeInterface) (tla.Value, error) {
	if f.hit("read") {
		return tla.Value{}, distsys.ErrCriticalSectionAborted
	}
	return f.Inner.ReadValue(iface)
}

func (f *Faulty) WriteValue(iface distsys.ArchetypeInterface, v tla.Value) error {
	if f.hit("write") {
		return distsys.ErrCriticalSectionAborted
	}
	return f.Inner.WriteValue(iface, v)
}

func (f *Faulty) Index(iface distsys.ArchetypeInterface, idx tla.Value) (distsys.ArchetypeResource, error) {
	if f.hit("index") {
		return nil, distsys.ErrCriticalSectionAborted
	}
	sub, err := f.Inner.Index(iface, idx)
	if err != nil {
		return nil, err
	}
	return &Faulty{Inner: sub, Name: f.Name + "[" + idx.String() + "]", W: f.W, parent: f}, nil
}

func (f *Faulty) Close() error { return f.Inner.Close() }

// ---------------------------------------------------------------------------------
// Recorder: in-memory trace.Recorder.

type Recorder struct {
	Events []trace.Event
	OnEvent func(ev trace.Event)
}

func (r *Recorder) RecordEvent(ev trace.Event) {
	// Elements is reused by the runtime: copy
	cp := ev
	cp.Elements = append([]trace.Element(nil), ev.Elements...)
	r.Events = append(r.Events, cp)
	if r.OnEvent != nil {
		r.OnEvent(cp)
	}
}

// ---------------------------------------------------------------------------------
// Reference models of committed abstract state.

// Model is the abstract state of one resource under the transactional discipline.
type Model interface {
	Begin()
	// Read returns the rendering of the value a read at idx must return now; blocked
	// means the read cannot succeed (empty input): the section must abort instead.
	Read(idx string) (want string, blocked bool)
	Write(idx string, v tla.Value)
	Commit()
	Abort()
}

// CellModel: a value (or a map of values under idx) with read-your-writes.
type CellModel struct {
	Committed map[string]string
	work      map[string]string
	Default   string
}

func NewCellModel(def string) *CellModel {
	return &CellModel{Committed: map[string]string{}, Default: def}
}

func (m *CellModel) Begin() { m.work = map[string]string{} }
func (m *CellModel) Read(idx string) (string, bool) {
	if v, ok := m.work[idx]; ok {
		return v, false
	}
	if v, ok := m.Committed[idx]; ok {
		return v, false
	}
	return m.Default, false
}
func (m *CellModel) Write(idx string, v tla.Value) { m.work[idx] = Canon(v) }
func (m *CellModel) Commit() {
	for k, v := range m.work {
		m.Committed[k] = v
	}
	m.work = nil
}
func (m *CellModel) Abort() { m.work = nil }

// InQueueModel: an input stream consumed by committed sections only.
type InQueueModel struct {
	All      []string // everything that will ever be offered, in order
	Consumed int      // by committed sections
	taken    int      // by the attempt in flight
	// Available says how many items are certainly deliverable now (for queues fed
	// asynchronously); nil means all of All.
	Available func() int
}

func (m *InQueueModel) Begin() { m.taken = 0 }
func (m *InQueueModel) Read(string) (string, bool) {
	i := m.Consumed + m.taken
	if i >= len(m.All) {
		return "", true
	}
	m.taken++
	return m.All[i], false
}
func (m *InQueueModel) Unread()               { m.taken-- }
func (m *InQueueModel) Write(string, tla.Value) { panic("write to input model") }
func (m *InQueueModel) Commit()               { m.Consumed += m.taken; m.taken = 0 }
func (m *InQueueModel) Abort()                { m.taken = 0 }

// OutQueueModel: an output stream that only committed sections extend.
type OutQueueModel struct {
	Committed []string
	work      []string
	// Batches records the committed sections' contributions separately (TCP mailboxes:
	// all-or-nothing, contiguous).
	Batches [][]string
}

func (m *OutQueueModel) Begin()                 { m.work = nil }
func (m *OutQueueModel) Read(string) (string, bool) { panic("read from output model") }
func (m *OutQueueModel) Write(_ string, v tla.Value) { m.work = append(m.work, Canon(v)) }
func (m *OutQueueModel) Commit() {
	if len(m.work) > 0 {
		m.Batches = append(m.Batches, m.work)
	}
	m.Committed = append(m.Committed, m.work...)
	m.work = nil
}
func (m *OutQueueModel) Abort() { m.work = nil }

// Canon renders a value independently of Equal (String of the stripped value).
func Canon(v tla.Value) string {
	if v == (tla.Value{}) {
		return "<zero>"
	}
	return v.StripVClock().String()
}

// ---------------------------------------------------------------------------------
// Program representation.

type OpKind int

const (
	OpRead OpKind = iota
	OpWrite
)

type Op struct {
	Kind OpKind
	Res  int       // index into Program.Res
	Idx  []tla.Value
	Val  tla.Value // for writes
}

type Section struct {
	Ops []Op
	// BodyFailAt >= 0: the body itself fails (false await) after that many ops, for
	// BodyFailTimes attempts.
	BodyFailAt    int
	BodyFailTimes int
	// ResFault: a resource refuses an operation, for ResFaultTimes attempts.
	ResFaultRes   int
	ResFault      FaultPlan
	ResFaultTimes int
}

type ResDecl struct {
	Name   string // archetype parameter name (without archetype prefix)
	Kind   string
	Model  Model
	Faulty *Faulty
	// Blocking: a read may legitimately abort the section (timeout on empty input).
	MayBlock bool
}

func IdxKey(idx []tla.Value) string {
	if len(idx) == 0 {
		return ""
	}
	var sb strings.Builder
	for _, i := range idx {
		sb.WriteString("[" + i.String() + "]")
	}
	return sb.String()
}

func (o Op) String(res []*ResDecl) string {
	n := res[o.Res].Name + IdxKey(o.Idx)
	if o.Kind == OpRead {
		return "read " + n
	}
	return fmt.Sprintf("%s := %s", n, Canon(o.Val))
}
