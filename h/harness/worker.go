// Package harness is the worker side of a check: it loops simulated runs over a seed
// range, replays a recorded run, or minimises one; it talks to the driver (cmd/vcheck)
// through a JSON-lines file.
package harness

import (
	"encoding/json"
	"fmt"
	"io"
	"log"
	"os"
	"runtime"
	"sort"
	"strconv"
	"strings"
	"testing"
	"time"

	"verif/sim"
)

// Spec is what a check package provides.
type Spec struct {
	Property string
	// Configure derives the scheduling/fault policy of a run from its seed (used
	// identically for generation and replay).
	Configure func(seed uint64, tier string) sim.RunConfig
	// Scenario is the body of one simulated run. It draws its shape from w.Choose.
	Scenario func(w *sim.World)
	// NonTrivial says whether a finished run counts as non-trivial for the evidence.
	NonTrivial func(r *sim.Result) bool
	// Describe renders a sample of a run for the evidence (optional).
	Describe func(r *sim.Result) any
	// PostCheck runs after the simulated run, OUTSIDE the bubble (real clock available):
	// history oracles such as a linearizability check. It returns an oracle rule and
	// detail, or "" if the history is fine; inconclusive results are counted via res.
	PostCheck func(r *sim.Result) (rule, detail string)
	// Batch is an oracle that is expensive to start (a JVM): runs are collected and judged
	// together every BatchSize runs; verdicts are attributed to the run they belong to.
	Batch     BatchOracle
	BatchSize int
}

// BatchOracle judges collected runs together.
type BatchOracle interface {
	// Collect is called after each run that has not failed otherwise.
	Collect(idx uint64, res *sim.Result)
	// Flush judges everything collected since the last Flush: idx -> verdict.
	Flush() (map[uint64]BatchVerdict, error)
}

type BatchVerdict struct{ Rule, Detail string }

// runOnce executes one simulated run plus the post-run history check.
func runOnce(t *testing.T, spec Spec, cfg sim.RunConfig) sim.Result {
	res := sim.Run(t, cfg, spec.Scenario)
	if spec.PostCheck != nil && res.Failure == nil && res.Infra == "" {
		if rule, detail := spec.PostCheck(&res); rule != "" {
			res.Failure = &sim.Failure{Rule: rule, Detail: detail, Step: res.Steps, SimNS: int64(res.SimTime)}
		}
	}
	if spec.Batch != nil && !inRunLoop && res.Failure == nil && res.Infra == "" {
		spec.Batch.Collect(0, &res)
		vs, err := spec.Batch.Flush()
		if err != nil {
			res.Infra = "batch oracle: " + err.Error()
		} else if v, ok := vs[0]; ok {
			res.Failure = &sim.Failure{Rule: v.Rule, Detail: v.Detail, Step: res.Steps, SimNS: int64(res.SimTime)}
		}
	}
	return res
}

var inRunLoop bool

type ReplayFile struct {
	Property  string         `json:"property"`
	Rule      string         `json:"rule"`
	Detail    string         `json:"detail"`
	Seed      uint64         `json:"seed"`
	Tier      string         `json:"tier"`
	Decisions []sim.Decision `json:"decisions"`
	Digest    string         `json:"digest"`
	Steps     int            `json:"steps"`
	Minimised bool           `json:"minimised"`
	Events    []string       `json:"events,omitempty"`
	Note      string         `json:"note,omitempty"`
}

type Record struct {
	Type      string         `json:"type"`
	Idx       uint64         `json:"idx,omitempty"`
	Seed      uint64         `json:"seed,omitempty"`
	Rule      string         `json:"rule,omitempty"`
	Detail    string         `json:"detail,omitempty"`
	Known     bool           `json:"known,omitempty"`
	Decisions []sim.Decision `json:"decisions,omitempty"`
	Digest    string         `json:"digest,omitempty"`
	Steps     int            `json:"steps,omitempty"`
	Msg       string         `json:"msg,omitempty"`
	Agg       *Agg           `json:"agg,omitempty"`
	Sample    any            `json:"sample,omitempty"`
	Events    []string       `json:"events,omitempty"`
	Diverged  bool           `json:"diverged,omitempty"`
}

type Agg struct {
	Runs        int            `json:"runs"`
	Steps       int64          `json:"steps"`
	Preemptions int64          `json:"preemptions"`
	SimNS       int64          `json:"sim_ns"`
	Decisions   int64          `json:"decisions"`
	Budget      int            `json:"budget_ended"`
	Quiescent   int            `json:"quiescent_ended"`
	Leaked      int            `json:"leaked_goroutines"`
	Faults      map[string]int `json:"faults"`
	Probes      map[string]int `json:"probes"`
	Counts      map[string]int `json:"counts"`
	NonTrivial  []string       `json:"nontrivial_digests"`
	KnownHits   map[string]int `json:"known_hits"`
	WallS       float64        `json:"wall_s"`
}

// PorcupineTimeout is the budget of a history check: generous when replaying (a verdict
// must be reproduced), modest in the run loop (a time-out is counted as inconclusive).
func PorcupineTimeout() time.Duration {
	if os.Getenv("VERIF_MODE") == "replay" {
		return 5 * time.Minute
	}
	return time.Duration(envU("VERIF_PORCUPINE_S", 20)) * time.Second
}

func envU(name string, def uint64) uint64 {
	if s := os.Getenv(name); s != "" {
		if v, err := strconv.ParseUint(s, 10, 64); err == nil {
			return v
		}
	}
	return def
}

type out struct {
	f   io.Writer
	enc *json.Encoder
}

func (o *out) put(r Record) {
	if err := o.enc.Encode(r); err != nil {
		fmt.Fprintln(os.Stderr, "worker: cannot write record:", err)
		os.Exit(2)
	}
}

func startWatchdog() {
	go func() {
		last := sim.Steps.Load()
		lastT := time.Now()
		for {
			time.Sleep(5 * time.Second)
			cur := sim.Steps.Load()
			if cur != last {
				last, lastT = cur, time.Now()
				continue
			}
			if time.Since(lastT) > 90*time.Second {
				buf := make([]byte, 1<<20)
				n := runtime.Stack(buf, true)
				fmt.Fprintf(os.Stderr, "WATCHDOG: no scheduling step for 90s of wall time\n%s\n", buf[:n])
				os.Exit(2)
			}
		}
	}()
}

// Worker is called from the check package's TestWorker.
func Worker(t *testing.T, spec Spec) {
	if os.Getenv("VERIF_TRACE") == "1" {
		log.SetFlags(0)
		log.SetOutput(logSink{})
	} else if os.Getenv("VERIF_LOG") != "1" {
		log.SetOutput(io.Discard)
	}
	mode := os.Getenv("VERIF_MODE")
	if mode == "" {
		mode = "run"
	}
	tier := os.Getenv("VERIF_TIER")
	if tier == "" {
		tier = "quick"
	}
	var o out
	if p := os.Getenv("VERIF_OUT"); p != "" {
		f, err := os.Create(p)
		if err != nil {
			t.Fatalf("cannot create %s: %v", p, err)
		}
		defer f.Close()
		o.f = f
	} else {
		o.f = os.Stdout
	}
	o.enc = json.NewEncoder(o.f)
	startWatchdog()
	known := map[string]bool{}
	for _, k := range strings.Split(os.Getenv("VERIF_KNOWN"), ",") {
		if k != "" {
			known[k] = true
		}
	}
	switch mode {
	case "run":
		runLoop(t, spec, tier, &o, known)
	case "replay":
		replayOnce(t, spec, &o)
	case "shrink":
		shrink(t, spec, &o)
	default:
		t.Fatalf("unknown VERIF_MODE %q", mode)
	}
}

func runLoop(t *testing.T, spec Spec, tier string, o *out, known map[string]bool) {
	base := envU("VERIF_SEED", 1)
	from := envU("VERIF_FROM", 0)
	to := envU("VERIF_TO", 100)
	stride := envU("VERIF_STRIDE", 1)
	deadline := time.Time{}
	if s := envU("VERIF_BUDGET_S", 0); s > 0 {
		deadline = time.Now().Add(time.Duration(s) * time.Second)
	}
	maxFails := int(envU("VERIF_MAXFAILS", 1))
	agg := &Agg{Faults: map[string]int{}, Probes: map[string]int{}, Counts: map[string]int{}, KnownHits: map[string]int{}}
	nt := map[uint64]struct{}{}
	start := time.Now()
	samples := 0
	fails := 0
	inRunLoop = true
	defer func() { inRunLoop = false }()
	type kept struct {
		seed      uint64
		decisions []sim.Decision
		digest    uint64
		steps     int
	}
	pending := map[uint64]kept{}
	// the external oracle's cost per pending run, measured; the wall budget covers the
	// final flush too (a worker stops producing runs when what is pending could not be
	// judged before the deadline)
	flushedRuns, flushedFor := 0, time.Duration(0)
	perRun := func() time.Duration {
		if flushedRuns == 0 {
			return 4 * time.Second
		}
		return flushedFor / time.Duration(flushedRuns)
	}
	flush := func() bool {
		if spec.Batch == nil || len(pending) == 0 {
			return true
		}
		// the external oracle may take minutes: keep the wall-clock watchdog quiet meanwhile
		stopTick := make(chan struct{})
		go func() {
			for {
				select {
				case <-stopTick:
					return
				case <-time.After(5 * time.Second):
					sim.Steps.Add(1)
				}
			}
		}()
		t0 := time.Now()
		vs, err := spec.Batch.Flush()
		close(stopTick)
		flushedRuns += len(pending)
		flushedFor += time.Since(t0)
		agg.Counts["batch_oracle_ms"] += int(time.Since(t0).Milliseconds())
		agg.Counts["batch_oracle_calls"]++
		if err != nil {
			o.put(Record{Type: "infra", Msg: "batch oracle: " + err.Error()})
			return false
		}
		ids := make([]uint64, 0, len(vs))
		for id := range vs {
			ids = append(ids, id)
		}
		sort.Slice(ids, func(a, b int) bool { return ids[a] < ids[b] })
		for _, id := range ids {
			v, k := vs[id], pending[id]
			rec := Record{Type: "fail", Idx: id, Seed: k.seed, Rule: v.Rule, Detail: v.Detail, Decisions: k.decisions, Digest: fmt.Sprintf("%016x", k.digest), Steps: k.steps}
			if known[v.Rule] {
				rec.Known = true
				agg.KnownHits[v.Rule]++
				if agg.KnownHits[v.Rule] == 1 {
					o.put(rec)
				}
			} else {
				o.put(rec)
				fails++
			}
		}
		pending = map[uint64]kept{}
		return true
	}
	bsize := spec.BatchSize
	if bsize == 0 {
		bsize = 100
	}
	for i := from; i < to; i += stride {
		if !deadline.IsZero() && time.Now().After(deadline) {
			break
		}
		if spec.Batch != nil && !deadline.IsZero() && len(pending) > 0 && time.Now().Add(perRun()*time.Duration(len(pending)+1)).After(deadline) {
			break
		}
		// calibration: the first few runs are judged at once, so that the cost of the external
		// oracle on this machine, under its present load, is known before a whole batch is due
		if (len(pending) >= bsize) || (spec.Batch != nil && flushedRuns == 0 && len(pending) >= 3 && !deadline.IsZero()) {
			if !flush() || fails >= maxFails {
				break
			}
		}
		seed := sim.RunSeed(base, spec.Property, i)
		cfg := spec.Configure(seed, tier)
		cfg.Seed = seed
		wantSample := samples < 3 && os.Getenv("VERIF_SAMPLES") != "0"
		if os.Getenv("VERIF_DUMP") == "1" {
			cfg.Trace = true
		}
		res := runOnce(t, spec, cfg)
		if os.Getenv("VERIF_DUMP") == "1" && (res.Budget || res.Failure != nil) {
			ev := res.Events
			if len(ev) > 120 {
				ev = append(append([]string{}, ev[:20]...), ev[len(ev)-100:]...)
			}
			for _, e := range ev {
				fmt.Fprintln(os.Stderr, e)
			}
		}
		agg.Runs++
		agg.Steps += int64(res.Steps)
		agg.Preemptions += int64(res.Preemptions)
		agg.SimNS += int64(res.SimTime)
		agg.Decisions += int64(res.NDecisions)
		agg.Leaked += res.Leaked
		if res.Budget {
			agg.Budget++
		}
		if res.Quiescent {
			agg.Quiescent++
		}
		for k, v := range res.Faults {
			agg.Faults[k] += v
		}
		for k, v := range res.Probes {
			agg.Probes[k] += v
		}
		for k, v := range res.Counts {
			agg.Counts[k] += v
		}
		if res.Infra != "" {
			o.put(Record{Type: "infra", Idx: i, Seed: seed, Msg: res.Infra})
			break
		}
		if os.Getenv("VERIF_DIGESTS") == "1" && res.Failure == nil {
			o.put(Record{Type: "digest", Idx: i, Digest: fmt.Sprintf("%016x", res.Digest)})
		}
		if res.Failure != nil && res.Failure.Rule == sim.DiscardRule {
			agg.Counts["runs_discarded_deliberate_crash"]++
			continue
		}
		if res.Failure != nil {
			rec := Record{Type: "fail", Idx: i, Seed: seed, Rule: res.Failure.Rule, Detail: res.Failure.Detail,
				Decisions: res.Decisions, Digest: fmt.Sprintf("%016x", res.Digest), Steps: res.Steps}
			if known[res.Failure.Rule] {
				rec.Known = true
				agg.KnownHits[res.Failure.Rule]++
				if agg.KnownHits[res.Failure.Rule] == 1 {
					o.put(rec)
				}
			} else {
				o.put(rec)
				fails++
				if fails >= maxFails {
					break
				}
			}
			continue
		}
		if spec.Batch != nil {
			spec.Batch.Collect(i, &res)
			pending[i] = kept{seed: seed, decisions: res.Decisions, digest: res.Digest, steps: res.Steps}
		}
		if spec.NonTrivial == nil || spec.NonTrivial(&res) {
			nt[res.Digest] = struct{}{}
		}
		if wantSample && spec.Describe != nil {
			o.put(Record{Type: "sample", Idx: i, Seed: seed, Digest: fmt.Sprintf("%016x", res.Digest), Steps: res.Steps, Sample: spec.Describe(&res)})
			samples++
		}
	}
	flush()
	agg.WallS = time.Since(start).Seconds()
	ds := make([]string, 0, len(nt))
	for d := range nt {
		ds = append(ds, strconv.FormatUint(d, 16))
	}
	sort.Strings(ds)
	agg.NonTrivial = ds
	o.put(Record{Type: "agg", Agg: agg})
}

func loadReplay(t *testing.T) *ReplayFile {
	p := os.Getenv("VERIF_REPLAY")
	b, err := os.ReadFile(p)
	if err != nil {
		t.Fatalf("cannot read replay file %q: %v", p, err)
	}
	var rf ReplayFile
	if err := json.Unmarshal(b, &rf); err != nil {
		t.Fatalf("bad replay file: %v", err)
	}
	if rf.Tier != "" {
		// scenarios that narrow their configuration space per tier read VERIF_TIER
		os.Setenv("VERIF_TIER", rf.Tier)
	}
	return &rf
}

func runReplay(t *testing.T, spec Spec, rf *ReplayFile, ds []sim.Decision, lenient, trace bool) sim.Result {
	cfg := spec.Configure(rf.Seed, rf.Tier)
	cfg.Seed = rf.Seed
	cfg.IsReplay = true
	cfg.Replay = ds
	cfg.Lenient = lenient
	cfg.Trace = trace
	return runOnce(t, spec, cfg)
}

func replayOnce(t *testing.T, spec Spec, o *out) {
	rf := loadReplay(t)
	res := runReplay(t, spec, rf, rf.Decisions, false, os.Getenv("VERIF_TRACE") == "1")
	rec := Record{Type: "replay", Seed: rf.Seed, Digest: fmt.Sprintf("%016x", res.Digest), Steps: res.Steps, Diverged: res.Diverged, Events: res.Events}
	if res.Infra != "" {
		rec.Msg = "infra: " + res.Infra
	}
	if res.Failure != nil {
		rec.Rule = res.Failure.Rule
		rec.Detail = res.Failure.Detail
	}
	o.put(rec)
}

// shrink minimises the decision list of a failing run: delta debugging over the
// non-default decisions (removing one = taking the default at that position), keeping
// a candidate only if the same oracle rule fires; after every success the candidate's
// own recorded decision log becomes the new baseline, so the result is always a
// self-consistent stream.
func shrink(t *testing.T, spec Spec, o *out) {
	rf := loadReplay(t)
	budget := time.Duration(envU("VERIF_SHRINK_S", 60)) * time.Second
	deadline := time.Now().Add(budget)
	try := func(ds []sim.Decision) (sim.Result, bool) {
		res := runReplay(t, spec, rf, ds, true, false)
		return res, res.Failure != nil && res.Failure.Rule == rf.Rule && res.Infra == ""
	}
	best, ok := try(rf.Decisions)
	if !ok {
		o.put(Record{Type: "shrink", Msg: "original does not reproduce under lenient replay", Rule: rf.Rule})
		return
	}
	cur := best.Decisions
	tries := 0
	// ddmin
	n := 2
	for len(cur) >= 1 && time.Now().Before(deadline) {
		if n > len(cur) {
			n = len(cur)
		}
		chunk := (len(cur) + n - 1) / n
		reduced := false
		for s := 0; s < len(cur) && time.Now().Before(deadline); s += chunk {
			e := s + chunk
			if e > len(cur) {
				e = len(cur)
			}
			cand := append(append([]sim.Decision{}, cur[:s]...), cur[e:]...)
			tries++
			if res, ok := try(cand); ok && len(res.Decisions) < len(cur) {
				cur = res.Decisions
				best = res
				reduced = true
				if n > 2 {
					n--
				}
				break
			}
		}
		if !reduced {
			if chunk <= 1 {
				break
			}
			n *= 2
		}
	}
	// lower values
	for i := 0; i < len(cur) && time.Now().Before(deadline); i++ {
		if cur[i].V > 1 {
			cand := append([]sim.Decision{}, cur...)
			cand[i].V = 1
			tries++
			if res, ok := try(cand); ok && len(res.Decisions) <= len(cur) {
				cur = res.Decisions
				best = res
			}
		}
	}
	// final strict run with trace
	fin := runReplay(t, spec, rf, cur, false, true)
	rec := Record{Type: "shrink", Seed: rf.Seed, Decisions: cur, Digest: fmt.Sprintf("%016x", fin.Digest), Steps: fin.Steps,
		Diverged: fin.Diverged, Msg: fmt.Sprintf("tries=%d from=%d to=%d", tries, len(rf.Decisions), len(cur))}
	if fin.Failure != nil {
		rec.Rule = fin.Failure.Rule
		rec.Detail = fin.Failure.Detail
	}
	ev := fin.Events
	if len(ev) > 400 {
		ev = ev[len(ev)-400:]
	}
	rec.Events = ev
	o.put(rec)
}

// logSink routes the code under test's log output into the event log of a traced run.
type logSink struct{}

func (logSink) Write(p []byte) (int, error) {
	if w := sim.Current(); w != nil {
		w.Note("log: %s", strings.TrimSpace(string(p)))
	}
	return len(p), nil
}
