package env

import (
	"sort"

	"github.com/DistCompiler/pgo/distsys/tla"
	"github.com/benbjohnson/immutable"
)

// Bags as in the TLA+ Bags module: functions from elements to positive counts. The empty
// bag may also be the empty tuple <<>> (specs initialise bag variables with <<>>).

func bagMap(b tla.Value) *immutable.Map[tla.Value, tla.Value] {
	if b.IsTuple() {
		if b.AsTuple().Len() != 0 {
			panic("env: non-empty tuple used as a bag")
		}
		return immutable.NewMap[tla.Value, tla.Value](tla.ValueHasher{})
	}
	return b.AsFunction()
}

func mkBag(m *immutable.Map[tla.Value, tla.Value]) tla.Value {
	if m.Len() == 0 {
		return tla.MakeTuple()
	}
	return tla.MakeRecordFromMap(m)
}

// BagAdd is b (+) SetToBag({x}).
func BagAdd(b tla.Value, x tla.Value) tla.Value {
	m := bagMap(b)
	if c, ok := m.Get(x); ok {
		return mkBag(m.Set(x, tla.MakeNumber(c.AsNumber()+1)))
	}
	return mkBag(m.Set(x, tla.MakeNumber(1)))
}

// BagRemove is b (-) SetToBag({x}).
func BagRemove(b tla.Value, x tla.Value) tla.Value {
	m := bagMap(b)
	c, ok := m.Get(x)
	if !ok {
		return b
	}
	if c.AsNumber() <= 1 {
		return mkBag(m.Delete(x))
	}
	return mkBag(m.Set(x, tla.MakeNumber(c.AsNumber()-1)))
}

// BagElems is BagToSet(b) in a deterministic order.
func BagElems(b tla.Value) []tla.Value {
	m := bagMap(b)
	var out []tla.Value
	it := m.Iterator()
	for !it.Done() {
		k, _, _ := it.Next()
		out = append(out, k)
	}
	sort.Slice(out, func(i, j int) bool { return out[i].String() < out[j].String() })
	return out
}

// BagCardinality counts copies.
func BagCardinality(b tla.Value) int {
	m := bagMap(b)
	n := 0
	it := m.Iterator()
	for !it.Done() {
		_, c, _ := it.Next()
		n += int(c.AsNumber())
	}
	return n
}
