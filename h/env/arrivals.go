package env

import "github.com/DistCompiler/pgo/distsys/tla"

// Arrivals remembers, per mailbox, the order in which messages were added by committed
// sections, so that a harness can restrict a bag network to per-sender FIFO delivery
// (a subset of the behaviours the bag allows).
type Arrivals struct {
	q           map[string][]tla.Value
	pendingPop  []arr
	pendingPush []arr
}

type arr struct {
	box string
	m   tla.Value
}

func NewArrivals() *Arrivals { return &Arrivals{q: map[string][]tla.Value{}} }

func (a *Arrivals) Push(box string, m tla.Value) { a.pendingPush = append(a.pendingPush, arr{box, m}) }
func (a *Arrivals) Pop(box string, m tla.Value)  { a.pendingPop = append(a.pendingPop, arr{box, m}) }

// Queue returns the committed arrival order of a mailbox minus what the section in flight has popped.
func (a *Arrivals) Queue(box string) []tla.Value {
	q := append([]tla.Value{}, a.q[box]...)
	for _, p := range a.pendingPop {
		if p.box != box {
			continue
		}
		for i := range q {
			if q[i].Equal(p.m) {
				q = append(q[:i], q[i+1:]...)
				break
			}
		}
	}
	return q
}

// Settle is called when the attempt's fate is known.
func (a *Arrivals) Settle(committed bool) {
	if committed {
		for _, p := range a.pendingPop {
			q := a.q[p.box]
			for i := range q {
				if q[i].Equal(p.m) {
					a.q[p.box] = append(append([]tla.Value{}, q[:i]...), q[i+1:]...)
					break
				}
			}
		}
		for _, p := range a.pendingPush {
			a.q[p.box] = append(a.q[p.box], p.m)
		}
	}
	a.pendingPop, a.pendingPush = nil, nil
}
