// Package env is the level-A ("spec world") environment: the REAL generated archetypes
// run on the real distsys core, while their environment parameters are bound to
// resources that hold the specification's global variables in one World value and
// implement the spec's mapping macros literally and transactionally. The fairness-
// counter seam is the gate: one critical-section attempt = one atomic simulator step,
// every either/with is a decision of the choice stream, and between steps all
// archetypes are parked at a label boundary, so a consistent snapshot of every spec
// variable exists after each step.
package env

import (
	"errors"
	"fmt"
	"sort"
	"time"

	"github.com/DistCompiler/pgo/distsys"
	"github.com/DistCompiler/pgo/distsys/tla"
	"github.com/DistCompiler/pgo/distsys/trace"

	"verif/sim"
)

// World holds the spec's global variables.
type World struct {
	W       *sim.World
	Vars    map[string]tla.Value
	work    map[string]tla.Value
	Version int
	Actors  []*Actor
	cur     *Actor
	Steps   int
	// AfterStep is called after every attempt (committed or aborted) with all actors parked.
	AfterStep func(a *Actor, label string, committed bool)
	// MaxAbortsAtVersion: attempts of one actor that may abort without the world changing
	// before the actor is considered disabled until the world changes.
	MaxAbortsAtVersion int
	stopping           bool
	// FaultBudget > 0 enables injected refusals ("buggify"): any environment resource may
	// refuse an operation of an attempt with ErrCriticalSectionAborted, as every real
	// resource may (time-out, lost connection). In the specification that is no step at
	// all: the runtime must roll the attempt back, archetype locals included, and retry.
	// At most FaultBudget refusals per run; the position is a decision of the stream.
	FaultBudget int
	refuseAt    int  // ordinal of the environment operation to refuse in the attempt in flight (-1 none, 8 = pre-commit)
	opN         int
	injected    bool // the attempt in flight was refused by injection
}

func NewWorld(w *sim.World) *World {
	return &World{W: w, Vars: map[string]tla.Value{}, MaxAbortsAtVersion: 3}
}

// Get reads a global in the section in flight (or the committed value outside one).
func (wd *World) Get(name string) tla.Value {
	if wd.work != nil {
		return wd.work[name]
	}
	return wd.Vars[name]
}

func (wd *World) Set(name string, v tla.Value) {
	if wd.work == nil {
		wd.Vars[name] = v
		return
	}
	wd.work[name] = v
}

func (wd *World) begin() {
	wd.opN, wd.refuseAt, wd.injected = 0, -1, false
	if wd.FaultBudget > 0 && !wd.stopping {
		if v := wd.W.ChooseP(sim.KFault, 10, 0.85); v > 0 {
			wd.refuseAt = v - 1
		}
	}
	wd.work = make(map[string]tla.Value, len(wd.Vars))
	for k, v := range wd.Vars {
		wd.work[k] = v
	}
}

func (wd *World) commit() {
	if wd.work != nil {
		wd.Vars = wd.work
		wd.work = nil
		wd.Version++
	}
}

func (wd *World) abort() { wd.work = nil }

// Choose resolves nondeterminism inside a mapping macro.
func (wd *World) Choose(n int) int { return wd.W.Choose(sim.KEither, n) }

// Abort is what a macro returns for a false await.
var Abort = distsys.ErrCriticalSectionAborted

// AssertFail builds the error a macro returns for a failed assert.
func AssertFail(what string) error { return fmt.Errorf("%w: %s", distsys.ErrAssertionFailed, what) }

// Res is an environment resource: a view (variable, index path) with read/write
// clauses of a mapping macro.
type Res struct {
	wd    *World
	Name  string
	idx   []tla.Value
	Read  func(wd *World, idx []tla.Value) (tla.Value, error)
	Write func(wd *World, idx []tla.Value, v tla.Value) error
}

func (wd *World) NewRes(name string, read func(*World, []tla.Value) (tla.Value, error), write func(*World, []tla.Value, tla.Value) error) *Res {
	return &Res{wd: wd, Name: name, Read: read, Write: write}
}

func (r *Res) Abort(distsys.ArchetypeInterface) chan struct{}   { r.wd.abort(); return nil }
func (r *Res) PreCommit(distsys.ArchetypeInterface) chan error {
	if r.wd.refuseAt == 8 && !r.wd.injected {
		r.wd.refuse("precommit")
		ch := make(chan error, 1)
		ch <- Abort
		return ch
	}
	return nil
}

func (wd *World) refuse(what string) {
	wd.injected = true
	wd.FaultBudget--
	wd.W.Fault("env_resource_refuses_" + what)
}

// refusedNow decides whether the environment operation about to run is the one to refuse.
func (wd *World) refusedNow(what string) bool {
	n := wd.opN
	wd.opN++
	if wd.refuseAt == n && wd.refuseAt < 8 && !wd.injected {
		wd.refuse(what)
		return true
	}
	return false
}
func (r *Res) Commit(distsys.ArchetypeInterface) chan struct{}  { r.wd.commit(); return nil }
func (r *Res) Close() error                                     { return nil }
func (r *Res) Index(_ distsys.ArchetypeInterface, i tla.Value) (distsys.ArchetypeResource, error) {
	nr := *r
	nr.idx = append(append([]tla.Value{}, r.idx...), i)
	return &nr, nil
}
func (r *Res) ReadValue(distsys.ArchetypeInterface) (tla.Value, error) {
	if r.wd.stopping {
		return tla.Value{}, Abort
	}
	if r.Read == nil {
		panic("env: read of write-only resource " + r.Name)
	}
	if r.wd.refusedNow("read") {
		return tla.Value{}, Abort
	}
	return r.Read(r.wd, r.idx)
}
func (r *Res) WriteValue(_ distsys.ArchetypeInterface, v tla.Value) error {
	if r.wd.stopping {
		return Abort
	}
	if r.Write == nil {
		panic("env: write of read-only resource " + r.Name)
	}
	if r.wd.refusedNow("write") {
		return Abort
	}
	return r.Write(r.wd, r.idx, v)
}

// ---- common macro building blocks ----

// FnGet is fn[i] for a function-valued global.
func FnGet(fn tla.Value, i tla.Value) tla.Value { return fn.ApplyFunction(i) }

// FnSet is [fn EXCEPT ![i] = v].
func FnSet(fn tla.Value, i tla.Value, v tla.Value) tla.Value {
	return tla.FunctionSubstitution(fn, []tla.FunctionSubstitutionRecord{{Keys: []tla.Value{i}, Value: func(tla.Value) tla.Value { return v }}})
}

// PlainVar: a global accessed without a mapping macro; idx selects through functions.
func (wd *World) PlainVar(name string) *Res {
	return wd.NewRes(name,
		func(wd *World, idx []tla.Value) (tla.Value, error) {
			v := wd.Get(name)
			for _, i := range idx {
				v = v.ApplyFunction(i)
			}
			return v, nil
		},
		func(wd *World, idx []tla.Value, v tla.Value) error {
			if len(idx) == 0 {
				wd.Set(name, v)
				return nil
			}
			wd.Set(name, tla.FunctionSubstitution(wd.Get(name), []tla.FunctionSubstitutionRecord{{Keys: idx, Value: func(tla.Value) tla.Value { return v }}}))
			return nil
		})
}

// ---- actors and the gate ----

type Actor struct {
	Name     string
	Self     tla.Value
	Ctx      *distsys.MPCalContext
	wd       *World
	parked   bool
	release  bool
	done     bool
	Err      error
	Panic    any
	PC       string // label of the attempt about to run / last run
	lastAbort bool
	gotEvent bool
	abortsAt int
	abortsV  int
	Commits  int
	// Locals lists the archetype-local variable names (qualified, e.g. "AServer.q") to snapshot.
	Locals []string
}

func (a *Actor) Done() bool { return a.done }

type gate struct{ a *Actor }

func (g *gate) BeginCriticalSection(pc string) {
	a := g.a
	a.PC = pc
	a.parked = true
	a.wd.W.Await(func() bool { return a.release }, 1000*time.Hour)
	a.release = false
	a.parked = false
	a.wd.begin()
}

func (g *gate) NextFairnessCounter(id string, ceiling uint) uint {
	return uint(g.a.wd.W.Choose(sim.KEither, int(ceiling)))
}

type recorder struct{ a *Actor }

func (r *recorder) RecordEvent(ev trace.Event) {
	r.a.lastAbort = ev.IsAbort
	r.a.gotEvent = true
}

// AddActor creates the context of one archetype instance; params are the archetype's
// parameter bindings (EnsureArchetypeRefParam/ValueParam, constants).
func (wd *World) AddActor(name string, self tla.Value, arch distsys.MPCalArchetype, locals []string, params ...distsys.MPCalContextConfigFn) *Actor {
	a := &Actor{Name: name, Self: self, wd: wd, Locals: locals}
	cfg := append([]distsys.MPCalContextConfigFn{}, params...)
	cfg = append(cfg, distsys.SetFairnessCounter(&gate{a}), distsys.SetTraceRecorder(&recorder{a}))
	a.Ctx = distsys.NewMPCalContext(self, arch, cfg...)
	wd.Actors = append(wd.Actors, a)
	return a
}

// Start launches every actor's Run; each parks at its first label.
func (wd *World) Start() {
	for _, a := range wd.Actors {
		a := a
		wd.W.Go(a.Name, func() {
			defer func() {
				if r := recover(); r != nil {
					a.Panic = r
					wd.abort()
				}
				a.done = true
			}()
			a.Err = a.Ctx.Run()
		})
	}
	wd.W.Await(func() bool {
		for _, a := range wd.Actors {
			if !a.parked && !a.done {
				return false
			}
		}
		return true
	}, time.Hour)
}

// Enabled lists the actors that may be scheduled now.
func (wd *World) Enabled() []*Actor {
	var out []*Actor
	for _, a := range wd.Actors {
		if a.done {
			continue
		}
		if a.abortsV == wd.Version && a.abortsAt >= wd.MaxAbortsAtVersion {
			continue // every recent attempt aborted and the world has not changed since
		}
		out = append(out, a)
	}
	return out
}

// Step lets actor a run exactly one critical-section attempt. It returns whether the
// attempt committed.
func (wd *World) Step(a *Actor) (committed bool) {
	label := a.PC
	a.gotEvent = false
	wd.cur = a
	a.release = true
	wd.W.Await(func() bool { return (a.parked && !a.release) || a.done }, time.Hour)
	wd.cur = nil
	wd.Steps++
	if wd.work != nil {
		// the attempt touched no environment resource (or ended by error): nothing to publish
		wd.work = nil
	}
	committed = a.gotEvent && !a.lastAbort
	if a.done && a.Err == nil && a.Panic == nil && !a.gotEvent {
		committed = false // the Done label: no commit event
	}
	if committed {
		a.Commits++
		a.abortsAt = 0
	} else if !a.done && !wd.injected { // an injected refusal says nothing about whether the action is enabled
		if a.abortsV != wd.Version {
			a.abortsV = wd.Version
			a.abortsAt = 0
		}
		a.abortsAt++
	}
	if wd.AfterStep != nil {
		wd.AfterStep(a, label, committed)
	}
	return committed
}

// Local reads an archetype-local variable of a parked actor.
func (a *Actor) Local(name string) (v tla.Value, ok bool) {
	defer func() {
		if r := recover(); r != nil {
			ok = false
		}
	}()
	return a.Ctx.IFace().ReadArchetypeResourceLocal(name), true
}

// StopAll ends every actor that is still parked (end of run).
func (wd *World) StopAll() {
	wd.stopping = true
	for _, a := range wd.Actors {
		if !a.done {
			a := a
			wd.W.Go("stop-"+a.Name, func() { a.Ctx.Stop() })
			a.release = true
		}
	}
	wd.W.Await(func() bool {
		for _, a := range wd.Actors {
			if !a.done {
				return false
			}
		}
		return true
	}, time.Hour)
}

// IsAssertion reports whether err wraps ErrAssertionFailed.
func IsAssertion(err error) bool { return errors.Is(err, distsys.ErrAssertionFailed) }

// Render gives a canonical rendering of the committed globals (for digests/samples).
func (wd *World) Render() string {
	names := make([]string, 0, len(wd.Vars))
	for k := range wd.Vars {
		names = append(names, k)
	}
	sort.Strings(names)
	s := ""
	for _, k := range names {
		s += k + "=" + wd.Vars[k].String() + " "
	}
	return s
}
