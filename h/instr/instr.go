// Package instr produces instrumented copies of Go packages of the code under test
// and a `go build -overlay` file, without touching the original tree. Rules R1..R8 are
// described in DESIGN.md §2.3.
package instr

import (
	"bytes"
	"encoding/json"
	"fmt"
	"go/ast"
	"go/importer"
	"go/parser"
	"go/printer"
	"go/token"
	"go/types"
	"os"
	"path/filepath"
	"sort"
	"strconv"
	"strings"
)

const simPkg = "_vsim"

var importSwap = map[string]string{
	"net":       "verif/sim/snet",
	"sync":      "verif/sim/ssync",
	"math/rand": "verif/sim/srand",
}

// Census is what the rewriter saw and did in one package set.
type Census struct {
	Files         int            `json:"files"`
	Rewrites      map[string]int `json:"rewrites"`
	Unsupported   []string       `json:"unsupported"`
	Notes         []string       `json:"notes"`
	AddedFiles    []string       `json:"added_files"`
	PackagesDone  []string       `json:"packages"`
}

type Overlay struct {
	Replace map[string]string `json:"Replace"`
}

type rewriter struct {
	fset    *token.FileSet
	info    *types.Info
	census  *Census
	file    *ast.File
	fname   string
	knobs   int
	tmp     int
	usedSim bool
}

func (r *rewriter) count(k string) { r.census.Rewrites[k]++ }

func (r *rewriter) unsupported(n ast.Node, what string) {
	p := r.fset.Position(n.Pos())
	r.census.Unsupported = append(r.census.Unsupported, fmt.Sprintf("%s:%d: %s", p.Filename, p.Line, what))
}

func (r *rewriter) fresh(prefix string) *ast.Ident {
	r.tmp++
	return ast.NewIdent("_v" + prefix + strconv.Itoa(r.tmp))
}

func (r *rewriter) simCall(fn string, args ...ast.Expr) *ast.CallExpr {
	r.usedSim = true
	return &ast.CallExpr{Fun: &ast.SelectorExpr{X: ast.NewIdent(simPkg), Sel: ast.NewIdent(fn)}, Args: args}
}

func (r *rewriter) yieldStmt() ast.Stmt { return &ast.ExprStmt{X: r.simCall("Yield")} }

// fakeImporter resolves std packages from source and gives empty packages for
// everything else (errors are ignored: only locally declared map/chan types matter).
type fakeImporter struct {
	std   types.Importer
	cache map[string]*types.Package
}

func (f *fakeImporter) Import(path string) (*types.Package, error) {
	if p, ok := f.cache[path]; ok {
		return p, nil
	}
	first := path
	if i := strings.Index(path, "/"); i >= 0 {
		first = path[:i]
	}
	if !strings.Contains(first, ".") && first != "verif" {
		if p, err := f.std.Import(path); err == nil {
			f.cache[path] = p
			return p, nil
		}
	}
	name := path[strings.LastIndex(path, "/")+1:]
	if strings.HasPrefix(name, "v") && len(name) > 1 && name[1] >= '0' && name[1] <= '9' {
		// .../badger/v3 => badger
		rest := path[:strings.LastIndex(path, "/")]
		name = rest[strings.LastIndex(rest, "/")+1:]
	}
	p := types.NewPackage(path, name)
	p.MarkComplete()
	f.cache[path] = p
	return p, nil
}

// Package describes one directory to instrument.
type Package struct {
	Dir string // absolute directory of the original package
	// Extra are files to ADD to the package (absolute source path in /verif); they are
	// not rewritten.
	Extra []string
}

// Instrument writes instrumented copies of pkgs into outDir and returns the overlay.
func Instrument(pkgs []Package, outDir string) (*Overlay, *Census, error) {
	census := &Census{Rewrites: map[string]int{}}
	ov := &Overlay{Replace: map[string]string{}}
	fset := token.NewFileSet()
	imp := &fakeImporter{std: importer.ForCompiler(fset, "source", nil), cache: map[string]*types.Package{}}
	for pi, pk := range pkgs {
		ents, err := os.ReadDir(pk.Dir)
		if err != nil {
			return nil, census, err
		}
		var files []*ast.File
		var names []string
		for _, e := range ents {
			n := e.Name()
			if e.IsDir() || !strings.HasSuffix(n, ".go") || strings.HasSuffix(n, "_test.go") {
				continue
			}
			full := filepath.Join(pk.Dir, n)
			f, err := parser.ParseFile(fset, full, nil, parser.ParseComments|parser.SkipObjectResolution)
			if err != nil {
				return nil, census, fmt.Errorf("parse %s: %w", full, err)
			}
			if hasIgnoreTag(f) {
				continue
			}
			files = append(files, f)
			names = append(names, full)
		}
		if len(files) == 0 {
			continue
		}
		info := &types.Info{Types: map[ast.Expr]types.TypeAndValue{}}
		conf := types.Config{Importer: imp, Error: func(error) {}, FakeImportC: true}
		_, _ = conf.Check(pk.Dir, fset, files, info)
		sub := filepath.Join(outDir, fmt.Sprintf("p%02d", pi))
		if err := os.MkdirAll(sub, 0o755); err != nil {
			return nil, census, err
		}
		for i, f := range files {
			r := &rewriter{fset: fset, info: info, census: census, file: f, fname: names[i]}
			r.rewriteFile()
			var buf bytes.Buffer
			cfg := printer.Config{Mode: printer.UseSpaces | printer.TabIndent, Tabwidth: 8}
			if err := cfg.Fprint(&buf, fset, f); err != nil {
				return nil, census, fmt.Errorf("print %s: %w", names[i], err)
			}
			out := filepath.Join(sub, filepath.Base(names[i]))
			if err := os.WriteFile(out, buf.Bytes(), 0o644); err != nil {
				return nil, census, err
			}
			ov.Replace[names[i]] = out
			census.Files++
		}
		for _, x := range pk.Extra {
			dst := filepath.Join(pk.Dir, "zz_verif_"+filepath.Base(x))
			ov.Replace[dst] = x
			census.AddedFiles = append(census.AddedFiles, dst)
		}
		census.PackagesDone = append(census.PackagesDone, pk.Dir)
	}
	sort.Strings(census.Unsupported)
	return ov, census, nil
}

func WriteOverlay(ov *Overlay, path string) error {
	b, err := json.MarshalIndent(ov, "", " ")
	if err != nil {
		return err
	}
	return os.WriteFile(path, b, 0o644)
}

func hasIgnoreTag(f *ast.File) bool {
	for _, cg := range f.Comments {
		if cg.Pos() > f.Package {
			break
		}
		for _, c := range cg.List {
			if strings.HasPrefix(c.Text, "//go:build") && strings.Contains(c.Text, "ignore") {
				return true
			}
		}
	}
	return false
}

// ---------------------------------------------------------------------------------

func (r *rewriter) rewriteFile() {
	f := r.file
	// comments after the package clause are dropped: new nodes carry no positions and a
	// line comment printed in front of them would swallow code
	var keep []*ast.CommentGroup
	for _, cg := range f.Comments {
		if cg.End() < f.Package {
			keep = append(keep, cg)
		}
	}
	f.Comments = keep
	// R1: import swap
	for _, im := range f.Imports {
		p, _ := strconv.Unquote(im.Path.Value)
		if np, ok := importSwap[p]; ok {
			name := p[strings.LastIndex(p, "/")+1:]
			if im.Name != nil {
				name = im.Name.Name
			}
			im.Path.Value = strconv.Quote(np)
			im.Name = ast.NewIdent(name)
			r.count("R1_import_" + p)
		}
		if p == "io/ioutil" && r.ioutilOnlyFiles() {
			name := "ioutil"
			if im.Name != nil {
				name = im.Name.Name
			}
			im.Path.Value = strconv.Quote("verif/sim/sfs")
			im.Name = ast.NewIdent(name)
			r.count("R1_import_io/ioutil")
		}
		switch p {
		case "os/exec", "net/http", "os/signal":
			r.census.Notes = append(r.census.Notes, fmt.Sprintf("%s imports %s (not simulated)", r.fname, p))
		}
	}
	// R6: calls that take a mutex inside the standard library while possibly blocking on
	// the network (gob Encoder.Encode / Decoder.Decode) are serialised by a lock the
	// simulator can see
	r.wrapStdlibLocked(f)
	// R7: time.Now() -> _vsim.Now() (strictly increasing instants)
	ast.Inspect(f, func(n ast.Node) bool {
		ce, ok := n.(*ast.CallExpr)
		if !ok || len(ce.Args) != 0 {
			return true
		}
		se, ok := ce.Fun.(*ast.SelectorExpr)
		if !ok || se.Sel.Name != "Now" {
			return true
		}
		if id, ok := se.X.(*ast.Ident); ok && id.Name == "time" {
			id.Name = simPkg
			r.usedSim = true
			r.count("R7_time_now")
		}
		return true
	})
	// R8: tuning knobs. A literal channel capacity >= 2 (a queue size) becomes
	// _vsim.Knob("<file>:<line>", N): N unless the running check draws a smaller capacity for
	// this run. Capacity only decides when a sender blocks, never what is delivered, so
	// correct code behaves the same; code that silently depends on "the queue is never
	// full" does not.
	ast.Inspect(f, func(n ast.Node) bool {
		ce, ok := n.(*ast.CallExpr)
		if !ok || len(ce.Args) != 2 {
			return true
		}
		if id, ok := ce.Fun.(*ast.Ident); !ok || id.Name != "make" {
			return true
		}
		if _, ok := ce.Args[0].(*ast.ChanType); !ok {
			return true
		}
		lit, ok := ce.Args[1].(*ast.BasicLit)
		if !ok || lit.Kind != token.INT {
			return true
		}
		if v, err := strconv.Atoi(lit.Value); err != nil || v < 2 {
			return true
		}
		r.knobs++
		name := fmt.Sprintf("%s#%d", filepath.Base(r.fname), r.knobs)
		ce.Args[1] = r.simCall("Knob", &ast.BasicLit{Kind: token.STRING, Value: strconv.Quote(name)}, lit)
		r.count("R8_knob_chan_capacity")
		return true
	})
	// declarations
	for _, d := range f.Decls {
		fd, ok := d.(*ast.FuncDecl)
		if !ok {
			// function literals in var initialisers
			ast.Inspect(d, func(n ast.Node) bool {
				if fl, ok := n.(*ast.FuncLit); ok {
					fl.Body.List = r.stmts(fl.Body.List)
					return false
				}
				return true
			})
			continue
		}
		if fd.Body == nil {
			continue
		}
		fd.Body.List = r.stmts(fd.Body.List)
		if isRPCShape(fd) {
			r.usedSim = true
			fd.Body.List = append([]ast.Stmt{&ast.ExprStmt{X: r.simCall("YieldAs", &ast.BasicLit{Kind: token.STRING, Value: `""`})}}, fd.Body.List...)
			r.count("R3_rpc_entry")
		}
	}
	if r.usedSim {
		addImport(f, simPkg, "verif/sim")
	}
}

func (r *rewriter) ioutilOnlyFiles() bool {
	ok := true
	ast.Inspect(r.file, func(n ast.Node) bool {
		if se, isSel := n.(*ast.SelectorExpr); isSel {
			if id, isID := se.X.(*ast.Ident); isID && id.Name == "ioutil" {
				if se.Sel.Name != "ReadFile" && se.Sel.Name != "WriteFile" {
					ok = false
				}
			}
		}
		return true
	})
	return ok
}

func addImport(f *ast.File, name, path string) {
	spec := &ast.ImportSpec{Name: ast.NewIdent(name), Path: &ast.BasicLit{Kind: token.STRING, Value: strconv.Quote(path)}}
	for _, d := range f.Decls {
		if gd, ok := d.(*ast.GenDecl); ok && gd.Tok == token.IMPORT {
			gd.Specs = append(gd.Specs, spec)
			if !gd.Lparen.IsValid() {
				gd.Lparen = gd.Pos()
				gd.Rparen = gd.End()
			}
			f.Imports = append(f.Imports, spec)
			return
		}
	}
	gd := &ast.GenDecl{Tok: token.IMPORT, Specs: []ast.Spec{spec}}
	f.Decls = append([]ast.Decl{gd}, f.Decls...)
	f.Imports = append(f.Imports, spec)
}

// isRPCShape: exported method func (T) M(A, *B) error
func isRPCShape(fd *ast.FuncDecl) bool {
	if fd.Recv == nil || !fd.Name.IsExported() || fd.Type.Params == nil || fd.Type.Results == nil {
		return false
	}
	n := 0
	var last ast.Expr
	for _, p := range fd.Type.Params.List {
		k := len(p.Names)
		if k == 0 {
			k = 1
		}
		n += k
		last = p.Type
	}
	if n != 2 {
		return false
	}
	if _, ok := last.(*ast.StarExpr); !ok {
		return false
	}
	if len(fd.Type.Results.List) != 1 || len(fd.Type.Results.List[0].Names) > 1 {
		return false
	}
	id, ok := fd.Type.Results.List[0].Type.(*ast.Ident)
	return ok && id.Name == "error"
}

// stmts rewrites a statement list.
func (r *rewriter) stmts(list []ast.Stmt) []ast.Stmt {
	var out []ast.Stmt
	for _, s := range list {
		out = append(out, r.stmt(s)...)
	}
	return out
}

func (r *rewriter) block(b *ast.BlockStmt) {
	if b != nil {
		b.List = r.stmts(b.List)
	}
}

// funcLits rewrites the bodies of function literals occurring in an expression/statement
// (without descending into nested statements, which the caller handles).
func (r *rewriter) funcLits(n ast.Node) {
	if n == nil {
		return
	}
	ast.Inspect(n, func(x ast.Node) bool {
		if fl, ok := x.(*ast.FuncLit); ok {
			r.block(fl.Body)
			return false
		}
		return true
	})
}

// containsRecv reports whether n contains a channel receive outside function literals.
func containsRecv(n ast.Node) bool {
	found := false
	if n == nil {
		return false
	}
	ast.Inspect(n, func(x ast.Node) bool {
		switch e := x.(type) {
		case *ast.FuncLit:
			return false
		case *ast.UnaryExpr:
			if e.Op == token.ARROW {
				found = true
			}
		}
		return !found
	})
	return found
}

func isSleepCall(s ast.Stmt) bool {
	es, ok := s.(*ast.ExprStmt)
	if !ok {
		return false
	}
	ce, ok := es.X.(*ast.CallExpr)
	if !ok {
		return false
	}
	se, ok := ce.Fun.(*ast.SelectorExpr)
	if !ok {
		return false
	}
	id, ok := se.X.(*ast.Ident)
	return ok && id.Name == "time" && se.Sel.Name == "Sleep"
}

func (r *rewriter) stmt(s ast.Stmt) []ast.Stmt {
	switch st := s.(type) {
	case *ast.BlockStmt:
		r.block(st)
		return []ast.Stmt{st}
	case *ast.LabeledStmt:
		// select / range need to know their label
		switch inner := st.Stmt.(type) {
		case *ast.SelectStmt:
			return []ast.Stmt{r.selectStmt(inner, st)}
		default:
			rs := r.stmt(st.Stmt)
			if len(rs) == 1 {
				st.Stmt = rs[0]
				return []ast.Stmt{st}
			}
			// label the first statement of the expansion; a labeled loop keeps its label
			// only if it is the loop itself, so wrap
			for i, x := range rs {
				switch x.(type) {
				case *ast.ForStmt, *ast.RangeStmt, *ast.SwitchStmt, *ast.TypeSwitchStmt:
					st.Stmt = x
					rs[i] = st
					return rs
				}
			}
			st.Stmt = &ast.BlockStmt{List: rs}
			return []ast.Stmt{st}
		}
	case *ast.GoStmt:
		return []ast.Stmt{r.goStmt(st)}
	case *ast.SelectStmt:
		return []ast.Stmt{r.selectStmt(st, nil)}
	case *ast.SendStmt:
		r.funcLits(st.Value)
		r.count("R3_send")
		return []ast.Stmt{r.yieldStmt(), st, r.yieldStmt()}
	case *ast.IfStmt:
		return r.ifStmt(st)
	case *ast.ForStmt:
		if containsRecv(st.Init) || containsRecv(st.Cond) || containsRecv(st.Post) {
			r.unsupported(st, "channel receive in for-clause")
		}
		r.funcLits(st.Init)
		r.funcLits(st.Cond)
		r.funcLits(st.Post)
		r.block(st.Body)
		return []ast.Stmt{st}
	case *ast.RangeStmt:
		return r.rangeStmt(st)
	case *ast.SwitchStmt:
		if containsRecv(st.Init) || containsRecv(st.Tag) {
			r.unsupported(st, "channel receive in switch header")
		}
		r.funcLits(st.Init)
		r.funcLits(st.Tag)
		for _, c := range st.Body.List {
			cc := c.(*ast.CaseClause)
			for _, e := range cc.List {
				r.funcLits(e)
			}
			cc.Body = r.stmts(cc.Body)
		}
		return []ast.Stmt{st}
	case *ast.TypeSwitchStmt:
		r.funcLits(st.Init)
		r.funcLits(st.Assign)
		for _, c := range st.Body.List {
			cc := c.(*ast.CaseClause)
			cc.Body = r.stmts(cc.Body)
		}
		return []ast.Stmt{st}
	case *ast.ReturnStmt:
		if len(st.Results) == 1 {
			// return <-ch  =>  yield; v := <-ch; yield; return v
			if u, ok := st.Results[0].(*ast.UnaryExpr); ok && u.Op == token.ARROW && !containsRecv(u.X) {
				r.funcLits(u.X)
				v := r.fresh("rv")
				r.count("R3_recv_return")
				return []ast.Stmt{r.yieldStmt(), &ast.AssignStmt{Lhs: []ast.Expr{v}, Tok: token.DEFINE, Rhs: []ast.Expr{u}}, r.yieldStmt(), &ast.ReturnStmt{Results: []ast.Expr{v}}}
			}
		}
		if containsRecv(st) {
			r.unsupported(st, "channel receive in return statement")
		}
		r.funcLits(st)
		return []ast.Stmt{st}
	case *ast.DeferStmt:
		r.funcLits(st.Call)
		return []ast.Stmt{st}
	default:
		// simple statements: assignment, expression, declaration, incdec, branch, empty
		r.funcLits(s)
		if containsRecv(s) {
			r.count("R3_recv")
			return []ast.Stmt{r.yieldStmt(), s, r.yieldStmt()}
		}
		if isSleepCall(s) {
			r.count("R3_sleep")
			return []ast.Stmt{r.yieldStmt(), s, r.yieldStmt()}
		}
		return []ast.Stmt{s}
	}
}

func (r *rewriter) ifStmt(st *ast.IfStmt) []ast.Stmt {
	r.funcLits(st.Init)
	r.funcLits(st.Cond)
	r.block(st.Body)
	if st.Else != nil {
		es := r.stmt(st.Else)
		if len(es) == 1 {
			st.Else = es[0]
		} else {
			st.Else = &ast.BlockStmt{List: es}
		}
	}
	if containsRecv(st.Cond) {
		r.unsupported(st, "channel receive in if condition")
	}
	if containsRecv(st.Init) {
		// hoist: { yield; init; yield; if cond {...} }
		init := st.Init
		st.Init = nil
		r.count("R3_recv_ifinit")
		return []ast.Stmt{&ast.BlockStmt{List: []ast.Stmt{r.yieldStmt(), init, r.yieldStmt(), st}}}
	}
	return []ast.Stmt{st}
}

// goStmt implements R2.
func (r *rewriter) goStmt(st *ast.GoStmt) ast.Stmt {
	call := st.Call
	r.funcLits(call.Fun)
	for _, a := range call.Args {
		r.funcLits(a)
	}
	var pre []ast.Stmt
	tk := r.fresh("t")
	pre = append(pre, &ast.AssignStmt{Lhs: []ast.Expr{tk}, Tok: token.DEFINE, Rhs: []ast.Expr{r.simCall("Spawn")}})
	fn := r.fresh("f")
	pre = append(pre, &ast.AssignStmt{Lhs: []ast.Expr{fn}, Tok: token.DEFINE, Rhs: []ast.Expr{call.Fun}})
	var args []ast.Expr
	for _, a := range call.Args {
		switch x := a.(type) {
		case *ast.BasicLit:
			args = append(args, x)
			continue
		case *ast.Ident:
			if x.Name == "nil" || x.Name == "true" || x.Name == "false" {
				args = append(args, x)
				continue
			}
		}
		av := r.fresh("a")
		pre = append(pre, &ast.AssignStmt{Lhs: []ast.Expr{av}, Tok: token.DEFINE, Rhs: []ast.Expr{a}})
		args = append(args, av)
	}
	inner := &ast.CallExpr{Fun: fn, Args: args, Ellipsis: call.Ellipsis}
	body := &ast.BlockStmt{List: []ast.Stmt{
		&ast.ExprStmt{X: r.simCall("Enter", tk)},
		&ast.DeferStmt{Call: r.simCall("Exit", tk)},
		&ast.ExprStmt{X: inner},
	}}
	g := &ast.GoStmt{Call: &ast.CallExpr{Fun: &ast.FuncLit{Type: &ast.FuncType{Params: &ast.FieldList{}}, Body: body}}}
	pre = append(pre, g)
	r.count("R2_go")
	return &ast.BlockStmt{List: pre}
}

func labelUses(body ast.Node, label string) (brk, gt, cont bool) {
	ast.Inspect(body, func(n ast.Node) bool {
		if b, ok := n.(*ast.BranchStmt); ok && b.Label != nil && b.Label.Name == label {
			switch b.Tok {
			case token.BREAK:
				brk = true
			case token.GOTO:
				gt = true
			case token.CONTINUE:
				cont = true
			}
		}
		return true
	})
	return
}

// selectStmt implements R4.
func (r *rewriter) selectStmt(st *ast.SelectStmt, lab *ast.LabeledStmt) ast.Stmt {
	var pre []ast.Stmt
	var caseVars []ast.Expr
	sw := &ast.SwitchStmt{Body: &ast.BlockStmt{}}
	hasDefault := false
	idx := 0
	for _, c := range st.Body.List {
		cc := c.(*ast.CommClause)
		body := r.stmts(cc.Body)
		if cc.Comm == nil {
			hasDefault = true
			sw.Body.List = append(sw.Body.List, &ast.CaseClause{List: nil, Body: body})
			continue
		}
		kv := r.fresh("k")
		var head []ast.Stmt
		switch cm := cc.Comm.(type) {
		case *ast.SendStmt:
			r.funcLits(cm.Value)
			pre = append(pre, &ast.AssignStmt{Lhs: []ast.Expr{kv}, Tok: token.DEFINE, Rhs: []ast.Expr{r.simCall("Send", cm.Chan, cm.Value)}})
		case *ast.ExprStmt:
			ue, ok := cm.X.(*ast.UnaryExpr)
			if !ok || ue.Op != token.ARROW {
				r.unsupported(cm, "unexpected select case expression")
				continue
			}
			pre = append(pre, &ast.AssignStmt{Lhs: []ast.Expr{kv}, Tok: token.DEFINE, Rhs: []ast.Expr{r.simCall("Recv", ue.X)}})
		case *ast.AssignStmt:
			ue, ok := cm.Rhs[0].(*ast.UnaryExpr)
			if !ok || ue.Op != token.ARROW || len(cm.Rhs) != 1 {
				r.unsupported(cm, "unexpected select case assignment")
				continue
			}
			pre = append(pre, &ast.AssignStmt{Lhs: []ast.Expr{kv}, Tok: token.DEFINE, Rhs: []ast.Expr{r.simCall("Recv", ue.X)}})
			rhs := []ast.Expr{&ast.SelectorExpr{X: kv, Sel: ast.NewIdent("Val")}}
			if len(cm.Lhs) == 2 {
				rhs = append(rhs, &ast.SelectorExpr{X: kv, Sel: ast.NewIdent("Ok")})
			}
			head = append(head, &ast.AssignStmt{Lhs: cm.Lhs, Tok: cm.Tok, Rhs: rhs})
			if cm.Tok == token.DEFINE {
				// keep "declared and not used" away if the body ignores a variable
				for _, l := range cm.Lhs {
					if id, ok := l.(*ast.Ident); ok && id.Name != "_" {
						head = append(head, &ast.AssignStmt{Lhs: []ast.Expr{ast.NewIdent("_")}, Tok: token.ASSIGN, Rhs: []ast.Expr{ast.NewIdent(id.Name)}})
					}
				}
			}
		default:
			r.unsupported(cc, "unexpected select comm clause")
			continue
		}
		caseVars = append(caseVars, kv)
		sw.Body.List = append(sw.Body.List, &ast.CaseClause{
			List: []ast.Expr{&ast.BasicLit{Kind: token.INT, Value: strconv.Itoa(idx)}},
			Body: append(head, body...),
		})
		idx++
	}
	hd := "false"
	if hasDefault {
		hd = "true"
	} else {
		// keeps a select that ends a function a terminating statement
		sw.Body.List = append(sw.Body.List, &ast.CaseClause{List: nil, Body: []ast.Stmt{
			&ast.ExprStmt{X: &ast.CallExpr{Fun: ast.NewIdent("panic"), Args: []ast.Expr{&ast.BasicLit{Kind: token.STRING, Value: `"verif: select returned no case"`}}}},
		}})
	}
	args := append([]ast.Expr{ast.NewIdent(hd)}, caseVars...)
	sw.Tag = r.simCall("Select", args...)
	r.count("R4_select")
	if lab != nil {
		brk, gt, cont := labelUses(st, lab.Label.Name)
		_ = cont
		if brk && gt {
			r.unsupported(st, "labeled select with both break and goto to its label")
		}
		if gt {
			lab.Stmt = &ast.BlockStmt{List: append(pre, sw)}
			return lab
		}
		lab.Stmt = sw
		return &ast.BlockStmt{List: append(pre, lab)}
	}
	return &ast.BlockStmt{List: append(pre, sw)}
}

// rangeStmt implements R5 (maps) and the range-over-channel part of R3.
func (r *rewriter) rangeStmt(st *ast.RangeStmt) []ast.Stmt {
	r.funcLits(st.X)
	r.block(st.Body)
	tv, ok := r.info.Types[st.X]
	if !ok || tv.Type == nil {
		return []ast.Stmt{st}
	}
	switch tv.Type.Underlying().(type) {
	case *types.Map:
		isBlank := func(e ast.Expr) bool {
			if e == nil {
				return true
			}
			id, ok := e.(*ast.Ident)
			return ok && id.Name == "_"
		}
		if isBlank(st.Key) && isBlank(st.Value) {
			return []ast.Stmt{st}
		}
		r.count("R5_maprange")
		mv := r.fresh("m")
		pre := &ast.AssignStmt{Lhs: []ast.Expr{mv}, Tok: token.DEFINE, Rhs: []ast.Expr{st.X}}
		kv := r.fresh("key")
		var head []ast.Stmt
		okv := r.fresh("ok")
		if !isBlank(st.Key) {
			head = append(head, &ast.AssignStmt{Lhs: []ast.Expr{st.Key}, Tok: st.Tok, Rhs: []ast.Expr{kv}})
			if st.Tok == token.DEFINE {
				head = append(head, &ast.AssignStmt{Lhs: []ast.Expr{ast.NewIdent("_")}, Tok: token.ASSIGN, Rhs: []ast.Expr{st.Key}})
			}
		}
		vv := r.fresh("val")
		head = append(head,
			&ast.AssignStmt{Lhs: []ast.Expr{vv, okv}, Tok: token.DEFINE, Rhs: []ast.Expr{&ast.IndexExpr{X: mv, Index: kv}}},
			&ast.IfStmt{Cond: &ast.UnaryExpr{Op: token.NOT, X: okv}, Body: &ast.BlockStmt{List: []ast.Stmt{&ast.BranchStmt{Tok: token.CONTINUE}}}},
		)
		if !isBlank(st.Value) {
			head = append(head, &ast.AssignStmt{Lhs: []ast.Expr{st.Value}, Tok: st.Tok, Rhs: []ast.Expr{vv}})
			if st.Tok == token.DEFINE {
				head = append(head, &ast.AssignStmt{Lhs: []ast.Expr{ast.NewIdent("_")}, Tok: token.ASSIGN, Rhs: []ast.Expr{st.Value}})
			}
		} else {
			head = append(head, &ast.AssignStmt{Lhs: []ast.Expr{ast.NewIdent("_")}, Tok: token.ASSIGN, Rhs: []ast.Expr{vv}})
		}
		nb := &ast.BlockStmt{List: append(head, st.Body.List...)}
		loop := &ast.RangeStmt{Key: ast.NewIdent("_"), Value: kv, Tok: token.DEFINE, X: r.simCall("Keys", mv), Body: nb}
		// note: an unlabeled `continue` inside the original body still continues this loop
		return []ast.Stmt{&ast.BlockStmt{List: []ast.Stmt{pre, loop}}}
	case *types.Chan:
		r.count("R3_rangechan")
		cv := r.fresh("c")
		pre := &ast.AssignStmt{Lhs: []ast.Expr{cv}, Tok: token.DEFINE, Rhs: []ast.Expr{st.X}}
		vv := r.fresh("val")
		okv := r.fresh("ok")
		var head []ast.Stmt
		head = append(head,
			r.yieldStmt(),
			&ast.AssignStmt{Lhs: []ast.Expr{vv, okv}, Tok: token.DEFINE, Rhs: []ast.Expr{&ast.UnaryExpr{Op: token.ARROW, X: cv}}},
			r.yieldStmt(),
			&ast.IfStmt{Cond: &ast.UnaryExpr{Op: token.NOT, X: okv}, Body: &ast.BlockStmt{List: []ast.Stmt{&ast.BranchStmt{Tok: token.BREAK}}}},
		)
		if st.Key != nil {
			if id, ok := st.Key.(*ast.Ident); !ok || id.Name != "_" {
				head = append(head, &ast.AssignStmt{Lhs: []ast.Expr{st.Key}, Tok: st.Tok, Rhs: []ast.Expr{vv}})
				if st.Tok == token.DEFINE {
					head = append(head, &ast.AssignStmt{Lhs: []ast.Expr{ast.NewIdent("_")}, Tok: token.ASSIGN, Rhs: []ast.Expr{st.Key}})
				}
			} else {
				head = append(head, &ast.AssignStmt{Lhs: []ast.Expr{ast.NewIdent("_")}, Tok: token.ASSIGN, Rhs: []ast.Expr{vv}})
			}
		} else {
			head = append(head, &ast.AssignStmt{Lhs: []ast.Expr{ast.NewIdent("_")}, Tok: token.ASSIGN, Rhs: []ast.Expr{vv}})
		}
		loop := &ast.ForStmt{Body: &ast.BlockStmt{List: append(head, st.Body.List...)}}
		return []ast.Stmt{pre, loop}
	}
	return []ast.Stmt{st}
}

// wrapStdlibLocked rewrites X.Decode(a) / X.Encode(a) into
// _vsim.Locked(X, func() error { return X.Decode(a) }).
func (r *rewriter) wrapStdlibLocked(f *ast.File) {
	var visit func(n ast.Node) bool
	done := map[*ast.CallExpr]bool{}
	replace := func(e ast.Expr) ast.Expr {
		ce, ok := e.(*ast.CallExpr)
		if !ok || len(ce.Args) != 1 || done[ce] {
			return e
		}
		se, ok := ce.Fun.(*ast.SelectorExpr)
		if !ok || (se.Sel.Name != "Decode" && se.Sel.Name != "Encode") {
			return e
		}
		// X must be a plain identifier or field selection (no side effects when evaluated twice)
		switch se.X.(type) {
		case *ast.Ident, *ast.SelectorExpr:
		default:
			return e
		}
		r.count("R6_stdlib_locked")
		done[ce] = true
		fn := &ast.FuncLit{
			Type: &ast.FuncType{Params: &ast.FieldList{}, Results: &ast.FieldList{List: []*ast.Field{{Type: ast.NewIdent("error")}}}},
			Body: &ast.BlockStmt{List: []ast.Stmt{&ast.ReturnStmt{Results: []ast.Expr{ce}}}},
		}
		return r.simCall("Locked", se.X, fn)
	}
	visit = func(n ast.Node) bool {
		switch x := n.(type) {
		case *ast.AssignStmt:
			for i := range x.Rhs {
				x.Rhs[i] = replace(x.Rhs[i])
			}
		case *ast.SendStmt:
			x.Value = replace(x.Value)
		case *ast.ReturnStmt:
			for i := range x.Results {
				x.Results[i] = replace(x.Results[i])
			}
		case *ast.ExprStmt:
			x.X = replace(x.X)
		case *ast.IfStmt:
			// if err := X.Decode(..); err != nil
			if as, ok := x.Init.(*ast.AssignStmt); ok {
				for i := range as.Rhs {
					as.Rhs[i] = replace(as.Rhs[i])
				}
			}
		case *ast.ValueSpec:
			for i := range x.Values {
				x.Values[i] = replace(x.Values[i])
			}
		}
		return true
	}
	ast.Inspect(f, visit)
}
