package resources

// Added to package resources by the verification overlay (never part of the shipped
// code): read-only views used by oracles at scheduling points, and a constructor for
// the in-process replica handle whose field is unexported.

import (
	"github.com/DistCompiler/pgo/distsys"
	"github.com/DistCompiler/pgo/distsys/tla"
)

// VerifTwoPCSnapshot reads the replica state without taking its lock (callers run when
// no task is running).
func VerifTwoPCSnapshot(r distsys.ArchetypeResource) (version int, committed tla.Value, accepted bool, acceptedFrom string, acceptedVersion int, csState string) {
	res := r.(*TwoPCArchetypeResource)
	version = res.version
	committed = res.oldValue
	accepted = res.twoPCState == acceptedPreCommit
	if accepted {
		acceptedFrom = res.acceptedPreCommit.Sender.String()
		acceptedVersion = res.acceptedPreCommit.Version
	}
	csState = res.criticalSectionState.String()
	return
}

// VerifTwoPCAcceptedTime is the SenderTime of the pre-commit the replica currently holds (0 if none).
func VerifTwoPCAcceptedTime(r distsys.ArchetypeResource) int64 {
	res := r.(*TwoPCArchetypeResource)
	if res.twoPCState != acceptedPreCommit {
		return 0
	}
	return res.acceptedPreCommit.SenderTime
}

// VerifLocalReplicaHandle is LocalReplicaHandle{receiver: r}.
func VerifLocalReplicaHandle(r distsys.ArchetypeResource) ReplicaHandle {
	return LocalReplicaHandle{receiver: r.(*TwoPCArchetypeResource)}
}

// VerifTwoPCReceiverOf returns the receiver of a 2PC resource.
func VerifTwoPCReceiverOf(r distsys.ArchetypeResource) *TwoPCReceiver {
	return r.(*TwoPCArchetypeResource).receiver
}
