package main

import (
	"encoding/json"
	"fmt"
	"os"

	"verif/instr"
)

func main() {
	out := os.Args[1]
	var pkgs []instr.Package
	for _, d := range os.Args[2:] {
		pkgs = append(pkgs, instr.Package{Dir: d})
	}
	ov, c, err := instr.Instrument(pkgs, out)
	if err != nil {
		fmt.Println("ERR", err)
		os.Exit(2)
	}
	instr.WriteOverlay(ov, out+"/overlay.json")
	b, _ := json.MarshalIndent(c, "", " ")
	fmt.Println(string(b))
}
