package main

// Check describes one registered property check.
type Check struct {
	ID, Pkg          string
	Instr            []string            // repo-relative package directories to instrument
	Extra            map[string][]string // repo dir -> files under /verif/h/overlay to ADD to that package
	QuickRuns        uint64
	ThoroughRuns     uint64
	QuickBudgetS     int
	ThoroughBudgetS  int
	ShrinkS          int
	Env              []string
	Rule             string
	Real, Stub       []string
	Assumptions      []string
	MustProbe        []string
	MinRunsForProbes uint64
}

var coreInstr = []string{"distsys", "distsys/resources", "distsys/trace"}

var coreExtra = map[string][]string{
	"distsys":           {"distsys_access.go"},
	"distsys/resources": {"resources_access.go"},
	"distsys/tla":       {"tla_access.go"},
}

var realU = []string{
	"distsys core (MPCalContext Run/commit/abort/Stop, ArchetypeInterface, LocalArchetypeResource, fairness) — real, instrumented by overlay",
	"distsys/resources — real, instrumented by overlay",
	"distsys/tla values, distsys/hashmap — real, unmodified",
	"net/rpc, encoding/gob — real standard library over simulated connections",
}

var stubU = []string{
	"TCP/IP and sockets: verif/sim/snet in-memory byte streams",
	"wall clock and timers: testing/synctest fake clock",
	"goroutine scheduling: verif/sim scheduler (one parked goroutine released at a time)",
	"math/rand: verif/sim/srand fed by the choice stream",
	"sync.Mutex/RWMutex/WaitGroup: verif/sim/ssync (scheduler-aware)",
}

var checks = []Check{
	{
		ID: "C17", Pkg: "checks/c17", Instr: coreInstr,
		QuickRuns: 60000, ThoroughRuns: 3000000, QuickBudgetS: 60, ThoroughBudgetS: 900, ShrinkS: 40,
		Rule: "one run = one drawn lifecycle scenario (1-4 counting resources with drawn Close durations, optional IncMap elements and nested context, 1-4 labels, ending in Done/loop/assertion/Error label/resource error, 0-5 concurrent Stop callers with drawn delays and repetitions, optional second Run) under a drawn schedule; non-trivial = a Stop overlapped or preceded the run, or at least one pre-emption happened; distinct = distinct interleaving digests (hash of every scheduling decision and harness event)",
		Real:      realU,
		Stub:      append([]string{"resources bound to the archetype: counting cells of the harness (value cell semantics) plus the real IncMap, real NewNested, real InputChan"}, stubU...),
		Assumptions: []string{"Close durations <= 5 s, Stop delays <= 6 s; 'returns' means within 5 simulated minutes", "the instrumented copy differs from the shipped code only by rules R1-R5 (yields, scheduler-aware locks, simulated select)"},
		MustProbe: []string{"three_or_more_stops", "stop_during_or_after_run", "stopped_before_run", "second_run_attempted", "nested_context", "map_elements_realised"}, MinRunsForProbes: 2000,
	},
}

func findCheck(id string) *Check {
	for i := range checks {
		if checks[i].ID == id {
			return &checks[i]
		}
	}
	return nil
}
