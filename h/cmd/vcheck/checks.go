package main

// Check describes one registered property check.
type Check struct {
	ID, Pkg          string
	Instr            []string            // repo-relative package directories to instrument
	Extra            map[string][]string // repo dir -> files under /verif/h/overlay to ADD to that package
	QuickRuns        uint64
	ThoroughRuns     uint64
	QuickBudgetS     int
	ThoroughBudgetS  int
	ShrinkS          int
	Env              []string
	Rule             string
	Real, Stub       []string
	Assumptions      []string
	MustProbe        []string
	MinRunsForProbes uint64
}

var coreInstr = []string{"distsys", "distsys/resources", "distsys/trace"}

var coreExtra = map[string][]string{
	"distsys":           {"distsys_access.go"},
	"distsys/resources": {"resources_access.go"},
	"distsys/tla":       {"tla_access.go"},
}

var realU = []string{
	"distsys core (MPCalContext Run/commit/abort/Stop, ArchetypeInterface, LocalArchetypeResource, fairness) — real, instrumented by overlay",
	"distsys/resources — real, instrumented by overlay",
	"distsys/tla values, distsys/hashmap — real, unmodified",
	"net/rpc, encoding/gob — real standard library over simulated connections",
}

var realA = []string{
	"generated archetypes (systems/*/X.go) — real, unmodified",
	"distsys core (MPCalContext Run/commit/abort, ArchetypeInterface Read/Write/Call/Goto, LocalArchetypeResource) — real, instrumented by overlay",
	"distsys/tla values and operators — real",
}

var stubA = []string{
	"environment parameters of the archetypes (network, failure detectors, timers, channels, files): verif/env resources holding the spec's global variables and implementing each mapping macro of the spec literally and transactionally",
	"fairness counter: replaced through its public seam by the simulator's gate (one attempt = one atomic step) and choice oracle (every either/with is a stream decision)",
	"time and network: abstracted exactly as the spec abstracts them",
}

var stubU = []string{
	"TCP/IP and sockets: verif/sim/snet in-memory byte streams",
	"wall clock and timers: testing/synctest fake clock",
	"goroutine scheduling: verif/sim scheduler (one parked goroutine released at a time)",
	"math/rand: verif/sim/srand fed by the choice stream",
	"sync.Mutex/RWMutex/WaitGroup: verif/sim/ssync (scheduler-aware)",
}

var checks = []Check{
	{
		ID: "C17", Pkg: "checks/c17", Instr: coreInstr,
		QuickRuns: 60000, ThoroughRuns: 3000000, QuickBudgetS: 60, ThoroughBudgetS: 900, ShrinkS: 40,
		Rule: "one run = one drawn lifecycle scenario (1-4 counting resources with drawn Close durations, optional IncMap elements and nested context, 1-4 labels, ending in Done/loop/assertion/Error label/resource error, 0-5 concurrent Stop callers with drawn delays and repetitions, optional second Run) under a drawn schedule; non-trivial = a Stop overlapped or preceded the run, or at least one pre-emption happened; distinct = distinct interleaving digests (hash of every scheduling decision and harness event)",
		Real:      realU,
		Stub:      append([]string{"resources bound to the archetype: counting cells of the harness (value cell semantics) plus the real IncMap, real NewNested, real InputChan"}, stubU...),
		Assumptions: []string{"Close durations <= 5 s, Stop delays <= 6 s; 'returns' means within 5 simulated minutes", "the instrumented copy differs from the shipped code only by rules R1-R5 (yields, scheduler-aware locks, simulated select)"},
		MustProbe: []string{"three_or_more_stops", "stop_during_or_after_run", "stopped_before_run", "second_run_attempted", "nested_context", "map_elements_realised"}, MinRunsForProbes: 2000,
	},
	{
		ID: "C04", Pkg: "checks/c04", Instr: coreInstr,
		QuickRuns: 150000, ThoroughRuns: 6000000, QuickBudgetS: 45, ThoroughBudgetS: 600, ShrinkS: 30,
		Rule: "one run = one generated call graph (1-4 procedures with value/ref parameters and initialised/uninitialised locals, 1-3 labels each, calls guarded by a fuel argument so recursion and mutual recursion terminate, calls in tail position compiled to TailCall, archetype with 1-3 locals and 1-4 labels) built as MPCalJumpTable/MPCalProcTable in the code generator's conventions and run by the real MPCalContext.Run; some labels fail 1-2 attempts after doing all their work (assignments, Call/Return/TailCall); after every attempt pc, every stack frame and every variable are compared with a reference interpreter of PlusCal call semantics; non-trivial = at least one procedure call executed; distinct = distinct (program, abort pattern) digests",
		Real:        realU,
		Stub:        []string{"the Scala code generator cannot run offline: jump/proc tables are hand-built in its conventions (StateVars order, PreAmble writes, \"<Proc>.<var>\" resources, ref parameters holding handle strings as in MPCalGoCodegenPass.readArgumentValues)"},
		Assumptions: []string{"values are 32-bit integers and handle strings; recursion depth bounded by fuel <= 3", "single task: the only run-time nondeterminism is the retry pattern"},
		MustProbe:   []string{"depth_ge_3", "abort_after_call", "abort_after_return", "tailcall_executed", "recursion_executed"}, MinRunsForProbes: 2000,
	},
	{
		ID: "C10", Pkg: "checks/c10", Instr: coreInstr,
		QuickRuns: 200000, ThoroughRuns: 10000000, QuickBudgetS: 45, ThoroughBudgetS: 600, ShrinkS: 30,
		Rule: "one run = 1-5 phases; a phase is a label whose every attempt consults the same 1-4 choice points (bounds 1-6) and fails until a drawn target combination (or for exactly product-of-bounds attempts: a full window); between phases the structure changes (prefix-stable or not, longer or shorter, new ids or bounds) either under retry (no commit) or after a commit to the same or another label; start digits of the real round-robin oracle are decisions of the stream; non-trivial = at least one retried attempt; distinct = distinct (phase structure, start digits) digests",
		Real:        realU,
		Stub:        []string{"the label body is harness code calling iface.NextFairnessCounter as generated code does for either/with"},
		Assumptions: []string{"single task; the property's exactly-once clause is checked on every maximal run of attempts that consult the same choice points"},
		MustProbe:   []string{"full_window_checked", "structure_change_under_retry", "same_label_after_commit", "label_change", "depth_ge_3"}, MinRunsForProbes: 2000,
	},
	{
		ID: "C12", Pkg: "checks/c12", Instr: coreInstr,
		QuickRuns: 200000, ThoroughRuns: 20000000, QuickBudgetS: 45, ThoroughBudgetS: 900, ShrinkS: 30,
		Rule: "one run = 2-5 replicas of one CRDT type (GCounter, AWORSet or LWWSet), 4-43 drawn actions: local update (increment 0-5; add/remove of one of 1-4 elements, clock advanced 1-5 ms first so LWW timestamps are distinct), send full state (gob-encoded) to a peer, deliver any in-flight state (reordering), deliver and keep (duplication), drop; after every update and merge the replica's Read is compared with a reference model evaluated on the set of updates it knows; at the end replicas with equal knowledge must read equally, and commutativity, associativity, idempotence, inflation, gob round-trip and merge-equals-union are judged observationally on up to 24 reached states; non-trivial = at least 2 updates and a reorder/duplicate or a law check; distinct = distinct action-sequence digests",
		Real:        []string{"distsys/resources GCounter, AWORSet, LWWSet (Init/Read/Write/Merge/GobEncode/GobDecode) — real", "encoding/gob — real", "distsys/tla values — real"},
		Stub:        []string{"transport between replicas: harness message pool (reorder, duplicate, drop, delay); the CRDT *resource* (crdt.go broadcast/merge goroutines) is exercised by C13, not here", "time.Now: synctest fake clock"},
		Assumptions: []string{"LWW timestamps are distinct in every judged run (ties are outside the statement)", "state equality is judged observationally (Read now and after identical continuations), so representation differences without observable effect are not reported"},
		MustProbe:   []string{"kind_GCounter", "kind_AWORSet", "kind_LWWSet", "has_remove", "equal_knowledge_pair"}, MinRunsForProbes: 2000,
	},
	{
		ID: "C01", Pkg: "checks/c01", Instr: coreInstr,
		QuickRuns: 60000, ThoroughRuns: 3000000, QuickBudgetS: 60, ThoroughBudgetS: 1200, ShrinkS: 45,
		Rule: "one run = a program of 1-6 critical sections x 1-6 operations over 1-5 real resources whose kinds are drawn from: archetype local, cell, indexed cell, IncMap, HashMap, InputChan, OutputChan, LocalShared, Persistent(LocalShared) on in-memory badger, FileSystem on the simulated disk, TCP mailbox to a sink archetype on another node, TCP mailbox fed by a source archetype, the CRDT resource (grow-only counter) with a peer replica whose own archetype commits and aborts increments and judges every value it reads, the two-phase-commit resource with two passive replicas reached through net/rpc; attempts fail at drawn positions (false await after k operations; a resource refusing its n-th read/write/index/pre-commit; real read time-outs) 1-2 times before succeeding; every read is compared with a reference model (last committed state + own writes; inputs re-offered in order), outputs/deliveries/files/database compared at the end; non-trivial = at least one aborted attempt and one checked read; distinct = distinct interleaving digests",
		Real:        realU,
		Stub:        append([]string{"peers of mailbox resources: harness-built source/sink archetypes on the real runtime and real TCP mailboxes", "disk for FileSystem: verif/sim/sfs in-memory files; badger runs in its in-memory mode"}, stubU...),
		Assumptions: []string{"resource kinds not in the mix here (relaxed mailboxes, nested archetype, raft PersistentLog/CustomInChan) get their abort/commit atomicity checked by C06/C16 scenarios; contended 2PC and multi-writer CRDT scenarios are C11/C13", "SingleOutputChan is not transactional by contract and is exercised in C06 only"},
		MustProbe:   []string{"attempt_aborted", "abort_after_write_3_resources", "abort_in_read", "kind_mbox_out", "kind_mbox_in", "kind_file", "kind_incmap", "kind_shared", "kind_crdt", "kind_twopc"}, MinRunsForProbes: 2000,
	},
	{
		ID: "C06", Pkg: "checks/c06", Instr: coreInstr,
		QuickRuns: 40000, ThoroughRuns: 2000000, QuickBudgetS: 60, ThoroughBudgetS: 1200, ShrinkS: 45,
		Rule: "one run = 1-4 sender archetypes and 1-3 receiver archetypes on separate simulated nodes over the real TCP mailboxes or relaxed mailboxes (drawn), with NewMailboxesLength; senders run 1-5 sections of 1-3 sends (relaxed: one send, last operation) to drawn receivers, receivers run sections of 1-3 receives and length reads; sections fail 1-2 times at drawn positions (after sends / after receives); every message is unique per attempt; knobs drawn per run: receiveChanSize 1-5 or 100, read/write/dial time-outs 2 ms-2 s, latency up to 0.5 s, socket buffer 200 B / 2 kB / unbounded, late listeners, stalls up to 3 s; oracles over the history: per (sender, receiver) the obtained sequence is a prefix of / equals the committed-sent sequence, no message of a failed attempt, redelivery after an aborted receive in the same order, batch contiguity (TCP), reported length <= pending, all archetypes finish within 30 simulated minutes; non-trivial = messages delivered and (an abort, a read time-out or a pre-emption); distinct = distinct interleaving digests",
		Real:        realU,
		Stub:        stubU,
		Assumptions: []string{"strict configuration: no connection reset or node isolation is injected; receivers keep their mailbox open until every sender has finished", "InputChan/OutputChan are exercised by C01; SingleOutputChan and raft's CustomInChan are not exercised yet"},
		MustProbe:   []string{"kind_tcp", "kind_relaxed", "abort_after_send", "abort_after_receive", "read_timeout", "two_or_more_senders", "multi_message_batch_checked"}, MinRunsForProbes: 2000,
	},
	{
		ID: "C07", Pkg: "checks/c07", Instr: coreInstr,
		QuickRuns: 40000, ThoroughRuns: 2000000, QuickBudgetS: 60, ThoroughBudgetS: 1200, ShrinkS: 45,
		Rule: "one run = 2-5 archetype contexts sharing 1-4 variables (scalar or function-valued, accessed through indices) through the real LocalSharedManager (in a third of the runs every handle wrapped in Persistent on an in-memory badger store, as raftkvs binds its persisted variables) with lock time-outs drawn from 0 / 1 ms / 50 ms / 1 s; each context runs 1-5 sections that increment, transfer an amount between two variables, or read/write unique values in a drawn order (opposite orders occur), failing 1-2 times at drawn positions; schedules pre-empt at every yield and stall tasks while they hold locks; the history of committed sections (invoke/return stamped with event sequence numbers) is checked for strict serializability with porcupine against a multi-register transaction model outside the simulation; from a section's first access to a variable until its body returns no other context's access to that variable succeeds (mutual exclusion); no operation on a shared variable takes longer than the variable's lock time-out (net of the simulated time the simulator itself took from the task: injected stalls and waiting to be scheduled); all contexts must finish within 30 simulated minutes; non-trivial = at least 2 committed sections and a pre-emption or lock time-out; distinct = distinct interleaving digests",
		Real:        realU,
		Stub:        stubU,
		Assumptions: []string{"porcupine time-outs (20 s) are counted as inconclusive, never reported", "Persistent wrapping of shared variables is exercised by C01"},
		MustProbe:   []string{"lock_timeout", "second_lock_in_section", "attempt_aborted", "three_or_more_sharers", "persistent_wrapped"}, MinRunsForProbes: 2000,
	},
	{
		ID: "C13", Pkg: "checks/c13", Instr: coreInstr,
		QuickRuns: 20000, ThoroughRuns: 1000000, QuickBudgetS: 60, ThoroughBudgetS: 1200, ShrinkS: 45,
		Rule: "one run = 2-4 nodes each with the real NewCRDT resource (GCounter value, broadcaster, merger, net/rpc receiver) over the simulated network, broadcast interval 5 or 50 ms, send/dial time-out 0.1 or 2 s, peers coming up late, in a third of the four-node runs two replicas going silent for good (connections open, nothing arrives: the other two must keep converging), in a third of the runs a merge queue of 1-2 slots instead of 100 (instrumentation rule R8: literal queue capacities are per-run knobs); each node runs 1-4 sections: read, or write an increment that is a distinct power of two per ATTEMPT, hold the section open for 0-3 intervals (ticks and incoming merges land inside it), then commit or abort 1-2 times; afterwards every node keeps reading once per interval; oracles on every read: no bit of an aborted attempt, no bit of a section still in flight at another node, no bit seen in an earlier committed read missing (received state is never lost); after updates stop every node must read exactly the union of committed bits within 20 intervals + 2 send time-outs + 1 s; non-trivial = at least one committed update and a pre-emption; distinct = distinct interleaving digests",
		Real:        realU,
		Stub:        stubU,
		Assumptions: []string{"GCounter with power-of-two increments stands for any CRDT value (attribution of updates); AWORSet/LWWSet values are covered at value level by C12", "no connection resets or partitions are injected here (the property speaks of connected peers)"},
		MustProbe:   []string{"write_section_aborted", "section_held_open_after_write", "two_peers_silent", "small_merge_queue"}, MinRunsForProbes: 1000,
	},
	{
		ID: "C11", Pkg: "checks/c11", Instr: coreInstr, Extra: map[string][]string{"distsys/resources": {"resources_access.go"}},
		QuickRuns: 20000, ThoroughRuns: 1000000, QuickBudgetS: 60, ThoroughBudgetS: 1200, ShrinkS: 45,
		Rule: "one run = 2-5 nodes each owning the real NewTwoPC resource and an archetype running 0-3 increment sections (read x; x := x+1), some failing 1-2 times after the write; transport drawn: in-process LocalReplicaHandle, a simulator ReplicaHandle delivering to the peer's exported Receive with drawn delay and (in half of those runs) loss, duplication and reply loss, or the real RPCReplicaHandle (net/rpc + gob) over the simulated network; at every scheduling point: per replica the version never decreases, any two replicas at the same version hold the same committed value, and no replica holds the accepted pre-commit of a proposer whose later Abort it has already processed (observed at the proposer's handle on every transport); at the end: every programmed increment committed within 30 simulated minutes (progress), the committed increments read 0..K-1 each exactly once (single-copy register, no lost update), no replica still holds an accepted pre-commit, replicas at the final version hold K; non-trivial = at least 2 committed increments and a pre-emption; distinct = distinct interleaving digests",
		Real:        realU,
		Stub:        append([]string{"simulated-message transport: harness ReplicaHandle calling the peer's exported TwoPCReceiver.Receive"}, stubU...),
		Assumptions: []string{"all replicas stay reachable (a majority is required for progress); loss/duplication only on the simulated-message transport and only until the writers are done", "replica state is read through an overlay-added accessor at scheduling points"},
		MustProbe:   []string{"transport_in-process", "transport_simulated-message", "transport_rpc", "section_aborted", "three_or_more_replicas"}, MinRunsForProbes: 1000,
	},
	{
		ID: "C19", Pkg: "checks/c19", Instr: coreInstr,
		QuickRuns: 30000, ThoroughRuns: 1500000, QuickBudgetS: 60, ThoroughBudgetS: 1200, ShrinkS: 45,
		Rule: "one run = 1-2 real Monitors (ListenAndServe, RunArchetype) started at drawn times, optionally closed or isolated later; 1-3 archetypes started at drawn times that keep running or end normally, with an assertion error, or by panic, a third of the ending ones being run again later under the same id and monitor (a second life that runs on or ends in its own drawn way); 1-3 real SingleFailureDetectors created at drawn times (before/after monitor and archetype), polling interval 10/50/200 ms, time-out 5/20/100 ms; optionally a slow-network phase (every reply slower than the time-out) followed by a calm one; a probe reads every detector every interval/5; oracles per read: once the archetype has ended or its monitor has gone, every read after 2 intervals + 2 time-outs (+ the slow phase) is TRUE; while the archetype runs on a reachable monitor and the network is calm, every read after the same settling time is FALSE; no read takes longer than 1.5 intervals; a detector does not stay uninitialised; Close returns; non-trivial = more than 10 reads and an alive or failed report observed; distinct = distinct interleaving digests",
		Real:        realU,
		Stub:        append([]string{"monitored archetypes: harness-built looping archetypes on the real runtime"}, stubU...),
		Assumptions: []string{"settling time = 2 polling intervals + 2 time-outs + 5 ms (one poll to notice, one call to time out, dial)", "no task stalls are injected (stalls longer than the time-out legitimately produce false suspicions)"},
		MustProbe:   []string{"archetype_ended_done", "archetype_ended_error", "archetype_ended_panic", "alive_reported", "failure_reported_after_end", "archetype_restarted"}, MinRunsForProbes: 1000,
	},
	{
		ID: "C15", Pkg: "checks/c15", Instr: coreInstr,
		QuickRuns: 60000, ThoroughRuns: 5000000, QuickBudgetS: 45, ThoroughBudgetS: 900, ShrinkS: 30,
		Rule: "one run = the generated AServer and 1-8 AClient archetypes of systems/locksvc on the real runtime in the spec world (network = function from nodes to bags, ReliableLink macro to the letter; half of the runs deliver each mailbox in arrival order instead); the stream picks which archetype takes its next label and which message a read obtains; after every committed step: at most one hasLock, at most one client between critical section and unlock, every grant goes to the head of the server's queue, to a client with an outstanding request, in the order lock requests were received, never twice; no assertion fails; at the end every client has finished; non-trivial = at least 2 clients; distinct = distinct interleaving digests",
		Real: realA, Stub: stubA,
		Assumptions: []string{"atomicity of a critical section is by construction at this level (delivered by the runtime: C01)", "one pass lock/critical-section/unlock per client, as in the spec"},
		MustProbe:   []string{"three_or_more_clients", "fifo_network", "bag_network"}, MinRunsForProbes: 1000,
	},
	{
		ID: "C02", Pkg: "checks/c02", Instr: coreInstr,
		QuickRuns: 256, ThoroughRuns: 1000000, QuickBudgetS: 150, ThoroughBudgetS: 1500, ShrinkS: 60,
		Rule: "one run = one shipped spec/Go pair (drawn) whose real generated archetypes run in the spec world with small drawn constants under a seeded schedule and seeded resolution of every either/with and environment choice; the full spec state (pc, stack, every archetype local under its PlusCal-translation name, every global) is recorded after every committed step; TLC evaluates the spec's own Init on the first state and Next (or stuttering) on every consecutive pair, and when the generated Go reports an assertion failure TLC must find the spec's own action failing an assertion in that state too (batches of 16 (quick) or 100 (thorough) traces, one TLC start per system and constant assignment; the quick tier draws constants from a small set per system, the thorough tier from the full ranges; for load_balancer and proxy, whose checked-in TLA+ translation is stale with respect to the PlusCal algorithm PGo generated with the Go code, the scratch copy is re-translated with the PlusCal translator first); non-trivial = at least 3 validated steps; distinct = distinct interleaving digests; counters spec_steps_<system> give the validated steps per pair",
		Real: append([]string{"the specification's next-state relation: the .tla file read from /repo at check time, evaluated by TLC (tla2tools.jar)"}, realA...), Stub: stubA,
		Assumptions: []string{"TLC is the reference evaluator of the spec's Next; values are printed by an independent TLA+ printer (verif/tlc.Render)", "pairs not wired yet are listed in DESIGN.md; only wired pairs are claimed"},
		MustProbe:   []string{"system_locksvc", "system_raftkvs", "system_pbkvs", "system_dqueue", "system_load_balancer", "system_proxy", "system_shcounter", "system_gcounter", "system_shopcart"}, MinRunsForProbes: 200,
	},
	{
		ID: "C08", Pkg: "checks/c08", Instr: coreInstr,
		QuickRuns: 20000, ThoroughRuns: 1000000, QuickBudgetS: 100, ThoroughBudgetS: 1500, ShrinkS: 60,
		Rule: "one run = the generated Raft KV system of systems/raftkvs/raftkvs.go in the spec world: 1-5 servers x 5 archetypes, 1-3 clients issuing 1-6 Put/Get operations each (unique Put values, 1-2 keys), optionally the spec's crashers for a minority (ExploreFail), network buffer 2-6, per-link FIFO delivery with any interleaving of links, every LeaderTimeout/ClientTimeout/UnreliableFD read a biased stream coin, the stream picks which archetype takes its next label with per-server speed classes redrawn in phases; a quarter of the runs that neither flap nor hunt are calm (timers fire as in a healthy deployment: rarely unless there is no leader; twice the step budget), every run ends with a final-read phase (faults stop, in half of the 3+ server runs the leader is first cut off until another one leads, then one Get per key); a third of the runs with 3+ servers flap leaders (one favoured candidate per phase, the previous one cut off: its messages delayed in both directions), half of the other 3-server runs and a quarter of the 4-5 server runs hunt a stale leader (state-aware adversary: cut off a leader holding an entry nobody else has, let a second leader append, cut that one off, let the first back in, then the second); after every committed step the spec's ElectionSafety, LogMatching, LeaderCompleteness, StateMachineSafety, ApplyLogOK and (against the previous state) LeaderAppendOnly are evaluated, plus terms and commit indices never decrease and no assertion fails; non-trivial = at least 50 spec steps and 2 servers; distinct = distinct interleaving digests",
		Real: realA, Stub: stubA,
		Assumptions: []string{"invariants are transcribed from raftkvs.tla into Go predicates (C02 checks the steps against the spec itself)", "level B (bootstrap over the simulated network) is not part of this check yet"},
		MustProbe:   []string{"two_or_more_elections", "server_crashed", "log_truncated", "client_ops_recorded", "flap_mode", "hunt_mode", "server_isolated", "old_term_entry_on_majority_under_new_leader"}, MinRunsForProbes: 1000,
	},
	{
		ID: "C09", Pkg: "checks/c09", Instr: append(append([]string{}, coreInstr...), "systems/raftkvs", "systems/raftkvs/bootstrap"), Env: []string{"VERIF_C09_LEVELB=1"},
		QuickRuns: 20000, ThoroughRuns: 1000000, QuickBudgetS: 100, ThoroughBudgetS: 1500, ShrinkS: 60,
		Rule: "three runs in four = the same level-A Raft execution as C08 (with an adaptive workload: after a leader change following an acknowledged Put the next request is usually a Get of that key; calm runs and the final-read phase make lost acknowledged writes visible); one run in four = level B: the shipped bootstrap of systems/raftkvs (bootstrap.NewServer/NewClient with the real relaxed mailboxes, monitors, failure detectors, election timer, CustomInChan, LocalShared variables, in a third of those runs PersistentLog/MakePersistent on an in-memory badger store) for 1/3/5 servers and 1-3 clients under the simulator's scheduler, clock and network, clients going through the real bootstrap.Client.Run (request time-outs and re-sends included), 0-2 windows in which one server is cut off from the network (or, in a third of the runs, every server cut off once, one after the other) and optionally one server stopped, in half of the runs a paced workload (pauses between operations) followed by final reads of every key by every client once the faults are over; in both levels the history of client operations (invoke/return stamped with event sequence numbers; unanswered Puts pending for ever, unanswered Gets dropped) is checked with porcupine against a key-value map partitioned by key; non-trivial = at least 2 answered operations; distinct = distinct interleaving digests",
		Real: append(append([]string{}, realA...), "level B runs: systems/raftkvs/bootstrap (server.go, client.go, helper.go), raftkvs timer.go, customch.go, persistentlog.go, distsys/resources relaxed mailboxes, Monitor, SingleFailureDetector, LocalSharedManager, Persistent — real, instrumented by overlay"),
		Stub: append(append([]string{}, stubA...), stubU...),
		Assumptions: []string{"porcupine time-outs counted as inconclusive", "<= 18 operations per history", "the recorded finding (re-sent Puts are appended again) is attributed only to a history that becomes linearizable once every re-sent Put may take effect a second time (ghost operations); any other illegal history is reported", "level B: a re-sent request is recognised by the bootstrap client's own log line (\"client N sent timeout\"); progress at level B is not judged (counted as level_b_unfinished)"},
		MustProbe:   []string{"client_ops_recorded", "two_or_more_elections", "level_b", "level_b_op_answered", "level_b_ops_with_partition", "level_b_persist", "depose_mode", "calm_mode", "final_reads_answered", "final_reads_from_new_leader"}, MinRunsForProbes: 1000,
	},
	{
		ID: "C14", Pkg: "checks/c14", Instr: coreInstr,
		QuickRuns: 40000, ThoroughRuns: 2000000, QuickBudgetS: 60, ThoroughBudgetS: 1200, ShrinkS: 45,
		Rule: "one run = the generated AReplica x 1-4 and AClient x 1-3 archetypes of systems/pbkvs in the spec world (ReliableFIFOLink per <<id, typ>>, NetworkToggle, PerfectFD, LeaderElection on the alive set, NetworkBufferLength, FileSystem, Channel of 1-6 client requests with unique Put values), EXPLORE_FAIL in two thirds of the runs with every mayFail branch a stream decision, bounded so that one replica survives (half of those runs with 3+ replicas concentrate crashes on a primary half-way through replicating a request); the stream picks which archetype takes its next label; after every committed step ConsistencyOK as written in the spec (primary at sndResp => every alive replica holds the primary's fs), no spec assertion fails; the clients' history is checked with porcupine against a register; non-trivial = at least 2 client operations and 2 replicas; distinct = distinct interleaving digests",
		Real: realA, Stub: stubA,
		Assumptions: []string{"perfect failure detector (fd written only by the failing replica's failLabel), as the property states", "KEY_SET = {KEY1} as in the spec"},
		MustProbe:   []string{"replica_crashed", "primary_about_to_answer", "primary_crashed_mid_replication", "ops_with_crashes"}, MinRunsForProbes: 1000,
	},
	{
		ID: "C16", Pkg: "checks/c16", Instr: coreInstr, Extra: map[string][]string{"distsys/resources": {"resources_access.go"}},
		QuickRuns: 40000, ThoroughRuns: 2000000, QuickBudgetS: 60, ThoroughBudgetS: 1200, ShrinkS: 45,
		Rule: "one run = one drawn system with drawn sizes. Level A (real generated archetypes in the spec world, mapping macros to the letter, the stream picks which archetype takes its next label and resolves every either): dqueue (1-4 consumers, BUFFER_SIZE 1-4): every produced item goes to the requester whose request was committed first, consumers obtain exactly the items sent to them in production order, no buffer above its bound, no deadlock; loadbalancer (1-3 servers, 1-3 clients, BUFFER_SIZE 1-3): BuffersOk, every request forwarded once to a server and answered by exactly one server with the page of its path; proxy (1-3 backends, 1-2 clients, perfect failure detector, EXPLORE_FAIL in 3/4 of the runs with every mayFail branch a stream decision and any number of crashes): ProxyOK as written after every committed step, and a client is told FAIL only when every backend has failed. Level U (real generated archetypes on the real runtime with the real resources over the simulated network): shcounter (2-4 nodes, real 2PC): every node finishes and every replica ends at NUM_NODES; gcounter (2-4 nodes, real CRDT resource): reads never decrease, never exceed NUM_NODES, every node ends at NUM_NODES; shopcart (generated ANode, 2-3 nodes, real CRDT resource with the LWWSet the shipped bootstrap uses or, in a third of the runs, the AWORSet of the specification with one commanding node per element, 1-4 add/remove commands each over 3 elements): no phantom element, a command that ran alone is reflected in its answer, once every update has been delivered all nodes answer the same cart, and an element whose last command started after all others were answered is present iff that command was an add; nestedcrdtimpl (generated ACRDTResource x 1-3 with the G-counter operators of the module's test, driven by the spec's Node processes transcribed label by label: read/write/pre-commit/commit/abort protocol, NUM_OPS 1-6, BUFFER_SIZE 1-3): MonotonicState, own entry = committed increments, no phantom increments, a read never returns less than the replica counted when the critical section started, convergence to the number of committed increments at quiescence. No assertion of a spec fails anywhere; non-trivial = at least 10 spec steps (A) or 2 committed sections (U); distinct = distinct interleaving digests",
		Real: append(append([]string{}, realA...), "level U sub-scenarios: distsys/resources 2PC and CRDT resources, net/rpc, gob — real over the simulated network"),
		Stub: append(append([]string{}, stubA...), stubU...),
		Assumptions: []string{"dqueue/loadbalancer: CyclicReads/instream/WebPages yield unique items/paths/pages so deliveries are attributable (the spec's constants collapse them)", "proxy: PerfectFD (the property's hypothesis), not the PracticalFD the shipped spec instantiates", "replicatedkv has no spec or test in the tree and is not exercised"},
		MustProbe: []string{"system_dqueue", "system_loadbalancer", "system_proxy", "proxy_backend_crashed", "proxy_reports_failure", "answered_by_later_backend", "dqueue_two_or_more_consumers", "lb_two_servers_two_clients", "system_nestedcrdtimpl", "nested_abort_and_commit", "system_shcounter", "shcounter_three_or_more", "system_gcounter", "gcounter_all_finished", "system_shopcart", "shopcart_last_writer_checked"}, MinRunsForProbes: 3000,
	},
	{
		ID: "C18", Pkg: "checks/c18", Instr: coreInstr, Env: []string{"PGO_TRACE_DIR=@SCRATCH"},
		QuickRuns: 30000, ThoroughRuns: 1500000, QuickBudgetS: 60, ThoroughBudgetS: 1200, ShrinkS: 45,
		Rule: "one run = 2-4 archetypes on the real runtime with tracing and vector clocks on (PGO_TRACE_DIR set at process start), each with a scalar local, a function-valued local, a TCP mailbox (simulated network), Go-channel links to higher-numbered peers (OutputChan -> InputChan) and 0-2 shared variables (LocalSharedManager); drawn programs of 1-4 sections x 1-5 operations (read/assign/increment the scalar, chained assignments, indexed writes and reads, whole-function reads, channel and mailbox sends and receives, shared-variable reads and writes), attempts aborting at drawn positions 1-2 times or running to the end of their body and being refused at pre-commit, read and lock time-outs; every sent value is unique. The trace is taken from the in-memory recorder (2/3 of the runs) or parsed from the JSON files the runtime writes under PGO_TRACE_DIR (1/3). Oracles: one event per attempt in program order with the outcome the resources saw (a spy resource's Commit/Abort), exactly the reads and writes the body performed with their indices and values, previous-value hints of locals (including pc) equal to the value just before the write, replaying the logged writes of committed events reproduces every logged read of local state, own clock component = ordinal of the event, clocks never go back, and the clock of every attempt that read a value sent or written by another archetype's attempt dominates that attempt's logged clock; non-trivial = at least 4 attempts; distinct = distinct interleaving digests",
		Real:        realU,
		Stub:        append([]string{"archetypes: harness-built jump tables calling the interface as generated code does (Read/Write/Goto, RequireArchetypeResourceRef)", "a spy resource (constant value) reporting Commit/Abort to the harness"}, stubU...),
		Assumptions: []string{"calm network (time-outs far above latency) so that mailbox reconnects (C06 known findings) do not occur", "channel and mailbox links go from lower to higher archetype ids (no wait cycles); shared variables in every direction", "the Done pseudo-label logs no event"},
		MustProbe:   []string{"trace_from_json_files", "trace_from_recorder", "aborted_attempt_logged", "attempt_refused_at_precommit", "reads_from_checked", "indexed_local_write", "foreign_value_read_after_send_in_same_attempt", "read_timeout_or_lock_timeout"}, MinRunsForProbes: 1000,
	},
}

func findCheck(id string) *Check {
	for i := range checks {
		if checks[i].ID == id {
			return &checks[i]
		}
	}
	return nil
}
