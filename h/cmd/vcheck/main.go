// vcheck is the driver of every check: instrument the current /repo tree, build the
// check's worker binary with the overlay, fan out worker processes over seed ranges,
// minimise and replay-verify failures, consult known_findings.json, write evidence.
//
// Exit codes: 0 property held on everything explored (possibly with KNOWN-FINDING
// lines); 1 with "VIOLATION property=<id> replay=<path>"; 2 machinery trouble
// (instrumentation, build, nondeterminism guard, watchdog, unreplayable failure).
package main

import (
	"bufio"
	"bytes"
	"encoding/json"
	"flag"
	"fmt"
	"os"
	"os/exec"
	"path/filepath"
	"runtime"
	"sort"
	"strconv"
	"strings"
	"sync"
	"time"

	"verif/harness"
	"verif/instr"
)

var (
	verifRoot = envOr("VERIF_ROOT", "/verif")
	repoRoot  = envOr("VERIF_REPO", "/repo")
	goBin     = envOr("VERIF_GO", "go1.26.8")
)

func envOr(k, d string) string {
	if v := os.Getenv(k); v != "" {
		return v
	}
	return d
}

// scratchToRemove is the scratch directory of the command in progress (removed on every exit
// path, machinery trouble included, unless --keep was given).
var scratchToRemove string

func die2(format string, args ...any) {
	fmt.Fprintf(os.Stderr, "vcheck: "+format+"\n", args...)
	if scratchToRemove != "" {
		os.RemoveAll(scratchToRemove)
	}
	os.Exit(2)
}

func goEnv() []string {
	env := os.Environ()
	env = append(env, "GOFLAGS=-mod=mod", "GOPROXY=off", "GOSUMDB=off", "GOTOOLCHAIN=local", "CGO_ENABLED=0")
	return env
}

type knownFinding struct {
	Property    string `json:"property"`
	Status      string `json:"status"` // "known" | "fixed"
	Rule        string `json:"rule"`
	Commit      string `json:"commit,omitempty"`
	Description string `json:"description"`
}

type knownFile struct {
	Findings []knownFinding `json:"findings"`
	Lines    []string       `json:"lines,omitempty"`
}

func loadKnown() knownFile {
	var kf knownFile
	b, err := os.ReadFile(filepath.Join(verifRoot, "known_findings.json"))
	if err != nil {
		return kf
	}
	if err := json.Unmarshal(b, &kf); err != nil {
		die2("known_findings.json is not valid JSON: %v", err)
	}
	return kf
}

func main() {
	if len(os.Args) < 2 {
		die2("usage: vcheck run <ID> [--tier quick|thorough] | replay <path> | selftest <ID> | list")
	}
	switch os.Args[1] {
	case "run":
		cmdRun(os.Args[2:])
	case "replay":
		cmdReplay(os.Args[2:])
	case "selftest":
		cmdSelftest(os.Args[2:])
	case "warm":
		cmdWarm()
	case "list":
		for _, c := range checks {
			fmt.Println(c.ID, c.Pkg)
		}
	default:
		die2("unknown command %q", os.Args[1])
	}
}

// build instruments the tree and builds the worker binary for c into scratch.
func build(c *Check, scratch string) (*instr.Census, string) {
	var pkgs []instr.Package
	for _, d := range c.Instr {
		p := instr.Package{Dir: filepath.Join(repoRoot, d)}
		for _, x := range c.Extra[d] {
			p.Extra = append(p.Extra, filepath.Join(verifRoot, "h", "overlay", x))
		}
		pkgs = append(pkgs, p)
	}
	ov, census, err := instr.Instrument(pkgs, filepath.Join(scratch, "src"))
	if err != nil {
		die2("instrumentation failed: %v", err)
	}
	if len(census.Unsupported) > 0 {
		die2("instrumentation met constructs no rule covers (R7 census):\n  %s", strings.Join(census.Unsupported, "\n  "))
	}
	ovPath := filepath.Join(scratch, "overlay.json")
	if err := instr.WriteOverlay(ov, ovPath); err != nil {
		die2("cannot write overlay: %v", err)
	}
	bin := filepath.Join(scratch, "check.test")
	args := []string{"test", "-c", "-overlay", ovPath, "-o", bin}
	if repoRoot != "/repo" {
		// a tree elsewhere (scratch worktree): same module file with the replace
		// directives pointing at that tree
		mod, err := os.ReadFile(filepath.Join(verifRoot, "h", "go.mod"))
		if err != nil {
			die2("go.mod: %v", err)
		}
		mod = bytes.ReplaceAll(mod, []byte("=> /repo/"), []byte("=> "+repoRoot+"/"))
		os.WriteFile(filepath.Join(scratch, "go.mod"), mod, 0o644)
		sum, _ := os.ReadFile(filepath.Join(verifRoot, "h", "go.sum"))
		os.WriteFile(filepath.Join(scratch, "go.sum"), sum, 0o644)
		args = append(args, "-modfile", filepath.Join(scratch, "go.mod"))
	}
	args = append(args, "./"+c.Pkg)
	cmd := exec.Command(goBin, args...)
	cmd.Dir = filepath.Join(verifRoot, "h")
	cmd.Env = goEnv()
	outb, err := cmd.CombinedOutput()
	if err != nil {
		die2("build of %s against the current tree failed (exit 2 = could not build, not a verdict):\n%s", c.Pkg, outb)
	}
	return census, bin
}

func runWorker(bin, scratch string, env []string, timeout time.Duration) (string, error) {
	cmd := exec.Command(bin, "-test.run", "^TestWorker$", "-test.timeout", "0", "-test.count", "1")
	cmd.Env = append(os.Environ(), env...)
	for i, e := range cmd.Env {
		// a per-invocation directory for checks whose code under test writes files (C18: PGO_TRACE_DIR)
		if strings.HasSuffix(e, "=@SCRATCH") {
			d := filepath.Join(scratch, "files")
			os.MkdirAll(d, 0o755)
			cmd.Env[i] = strings.TrimSuffix(e, "@SCRATCH") + d
		}
	}
	cmd.Dir = scratch
	var stderr bytes.Buffer
	cmd.Stderr = &stderr
	cmd.Stdout = &stderr
	if err := cmd.Start(); err != nil {
		return "", err
	}
	done := make(chan error, 1)
	go func() { done <- cmd.Wait() }()
	select {
	case err := <-done:
		return stderr.String(), err
	case <-time.After(timeout):
		cmd.Process.Kill()
		<-done
		return stderr.String(), fmt.Errorf("worker exceeded wall-clock limit %v", timeout)
	}
}

func readRecords(path string) ([]harness.Record, error) {
	f, err := os.Open(path)
	if err != nil {
		return nil, err
	}
	defer f.Close()
	var recs []harness.Record
	sc := bufio.NewScanner(f)
	sc.Buffer(make([]byte, 1<<20), 1<<30)
	for sc.Scan() {
		var r harness.Record
		if err := json.Unmarshal(sc.Bytes(), &r); err != nil {
			return nil, fmt.Errorf("%s: %v", path, err)
		}
		recs = append(recs, r)
	}
	return recs, sc.Err()
}

func cmdRun(args []string) {
	fs := flag.NewFlagSet("run", flag.ExitOnError)
	tier := fs.String("tier", envOr("VERIF_TIER", "quick"), "quick|thorough")
	workers := fs.Int("workers", runtime.NumCPU(), "worker processes")
	budget := fs.Int("budget", 0, "override per-worker wall budget (s)")
	runs := fs.Uint64("runs", 0, "override number of runs")
	keep := fs.Bool("keep", false, "keep scratch directory")
	if len(args) < 1 {
		die2("usage: vcheck run <ID> [flags]")
	}
	id := args[0]
	fs.Parse(args[1:])
	c := findCheck(id)
	if c == nil {
		die2("unknown check %q", id)
	}
	seed := uint64(1)
	if s := os.Getenv("VERIF_SEED"); s != "" {
		v, err := strconv.ParseUint(s, 10, 64)
		if err != nil {
			// accept negative / arbitrary ints
			iv, err2 := strconv.ParseInt(s, 10, 64)
			if err2 != nil {
				die2("VERIF_SEED=%q is not an integer", s)
			}
			v = uint64(iv)
		}
		seed = v
	}
	start := time.Now()
	scratch, err := os.MkdirTemp("", "vcheck-"+id+"-")
	if err != nil {
		die2("mktemp: %v", err)
	}
	if !*keep {
		defer os.RemoveAll(scratch)
		scratchToRemove = scratch
	}
	exit := func(code int) {
		if !*keep {
			os.RemoveAll(scratch)
		}
		os.Exit(code)
	}
	census, bin := build(c, scratch)
	buildS := time.Since(start).Seconds()

	n := c.QuickRuns
	bud := c.QuickBudgetS
	if *tier == "thorough" {
		n = c.ThoroughRuns
		bud = c.ThoroughBudgetS
	}
	if *runs > 0 {
		n = *runs
	}
	if *budget > 0 {
		bud = *budget
	}
	kf := loadKnown()
	var knownRules []string
	for _, f := range kf.Findings {
		if f.Property == id && f.Status == "known" {
			knownRules = append(knownRules, f.Rule)
		}
	}
	W := *workers
	if uint64(W) > n {
		W = int(n)
	}
	var wg sync.WaitGroup
	type wres struct {
		out string
		err error
	}
	results := make([]wres, W)
	for k := 0; k < W; k++ {
		wg.Add(1)
		go func(k int) {
			defer wg.Done()
			env := append([]string{}, c.Env...)
			env = append(env,
				"VERIF_MODE=run", "VERIF_TIER="+*tier,
				"VERIF_SEED="+strconv.FormatUint(seed, 10),
				"VERIF_FROM="+strconv.Itoa(k), "VERIF_TO="+strconv.FormatUint(n, 10), "VERIF_STRIDE="+strconv.Itoa(W),
				"VERIF_BUDGET_S="+strconv.Itoa(bud),
				"VERIF_OUT="+filepath.Join(scratch, fmt.Sprintf("out-%d.jsonl", k)),
				"VERIF_KNOWN="+strings.Join(knownRules, ","),
				"GOMAXPROCS=2",
			)
			if k != 0 {
				env = append(env, "VERIF_SAMPLES=0")
			}
			o, err := runWorker(bin, scratch, env, time.Duration(bud)*time.Second+10*time.Minute)
			results[k] = wres{o, err}
		}(k)
	}
	wg.Wait()
	var fails []harness.Record
	var knownHits []harness.Record
	var samples []any
	total := harness.Agg{Faults: map[string]int{}, Probes: map[string]int{}, Counts: map[string]int{}, KnownHits: map[string]int{}}
	distinct := map[string]struct{}{}
	maxWall := 0.0
	for k := 0; k < W; k++ {
		recs, rerr := readRecords(filepath.Join(scratch, fmt.Sprintf("out-%d.jsonl", k)))
		sawAgg := false
		for _, r := range recs {
			switch r.Type {
			case "infra":
				die2("worker %d reported a machinery problem at run %d (seed %d): %s", k, r.Idx, r.Seed, r.Msg)
			case "fail":
				if r.Known {
					knownHits = append(knownHits, r)
				} else {
					fails = append(fails, r)
				}
			case "sample":
				samples = append(samples, map[string]any{"run_index": r.Idx, "seed": r.Seed, "digest": r.Digest, "steps": r.Steps, "run": r.Sample})
			case "agg":
				sawAgg = true
				a := r.Agg
				total.Runs += a.Runs
				total.Steps += a.Steps
				total.Preemptions += a.Preemptions
				total.SimNS += a.SimNS
				total.Decisions += a.Decisions
				total.Budget += a.Budget
				total.Quiescent += a.Quiescent
				total.Leaked += a.Leaked
				for kk, v := range a.Faults {
					total.Faults[kk] += v
				}
				for kk, v := range a.Probes {
					total.Probes[kk] += v
				}
				for kk, v := range a.Counts {
					total.Counts[kk] += v
				}
				for kk, v := range a.KnownHits {
					total.KnownHits[kk] += v
				}
				for _, d := range a.NonTrivial {
					distinct[d] = struct{}{}
				}
				if a.WallS > maxWall {
					maxWall = a.WallS
				}
			}
		}
		if results[k].err != nil || rerr != nil || !sawAgg {
			die2("worker %d did not finish cleanly (err=%v, read=%v, agg=%v); output tail:\n%s", k, results[k].err, rerr, sawAgg, tail(results[k].out, 60))
		}
	}

	violations := 0
	var violationLines []string
	var knownLines []string
	// one line per known finding listed for this property (printed whether or not it was hit)
	for _, f := range kf.Findings {
		if f.Property == id && f.Status == "known" {
			hit := total.KnownHits[f.Rule]
			knownLines = append(knownLines, fmt.Sprintf("KNOWN-FINDING: property=%s rule=%s hits=%d %s", id, f.Rule, hit, f.Description))
		}
	}
	// group new failures by rule, minimise + verify each (at most 3 rules)
	sort.Slice(fails, func(i, j int) bool { return fails[i].Idx < fails[j].Idx })
	seenRule := map[string]bool{}
	var sampleFail any
	for _, f := range fails {
		if seenRule[f.Rule] || len(seenRule) >= 3 {
			continue
		}
		seenRule[f.Rule] = true
		path, note := minimiseAndVerify(c, bin, scratch, *tier, f)
		if path == "" {
			// another run that failed the same rule, if there is one
			tried := 1
			for _, g := range fails {
				if path != "" || tried >= 3 {
					break
				}
				if g.Rule == f.Rule && g.Idx != f.Idx {
					tried++
					var n2 string
					path, n2 = minimiseAndVerify(c, bin, scratch, *tier, g)
					if path != "" {
						f, note = g, n2
					}
				}
			}
		}
		if path == "" {
			die2("failure (rule %s, run %d, seed %d) could not be replayed deterministically: %s", f.Rule, f.Idx, f.Seed, note)
		}
		violations++
		violationLines = append(violationLines, fmt.Sprintf("VIOLATION property=%s replay=%s", id, path))
		fmt.Printf("violation detail: rule=%s %s (%s)\n", f.Rule, f.Detail, note)
		if sampleFail == nil {
			sampleFail = map[string]any{"rule": f.Rule, "detail": f.Detail, "seed": f.Seed, "replay": path}
		}
	}
	// probes that must be reached
	var missing []string
	if total.Runs >= int(c.MinRunsForProbes) {
		for _, p := range c.MustProbe {
			if total.Probes[p] == 0 {
				missing = append(missing, p)
			}
		}
	}
	wall := time.Since(start).Seconds()
	ev := map[string]any{
		"property_id": id,
		"tier":        *tier,
		"seed":        int64(seed),
		"level":       "exploration",
		"wall_s":      wall,
		"violations":  violations,
		"assumptions": c.Assumptions,
		"coverage": map[string]any{
			"evaluations":         total.Runs,
			"distinct_nontrivial": len(distinct),
			"rule":                c.Rule,
			"samples":             samplesOr(samples, sampleFail),
			"runs_per_hour":       int(float64(total.Runs) / (maxWall + 1e-9) * 3600),
			"scheduling_steps":    total.Steps,
			"preemptions":         total.Preemptions,
			"decisions_drawn":     total.Decisions,
			"sim_time_covered_s":  float64(total.SimNS) / 1e9,
			"fault_counts":        total.Faults,
			"probe_hits":          total.Probes,
			"probes_never_hit":    missing,
			"counters":            total.Counts,
			"runs_ended_by_budget": total.Budget,
			"leaked_goroutines":   total.Leaked,
			"known_finding_hits":  total.KnownHits,
			"components_real":     c.Real,
			"components_stub":     c.Stub,
			"instrumentation":     census,
			"uninstrumented_sites": len(census.Unsupported),
			"build_s":             buildS,
			"workers":             W,
		},
	}
	os.MkdirAll(filepath.Join(verifRoot, "evidence"), 0o755)
	b, _ := json.MarshalIndent(ev, "", " ")
	if err := os.WriteFile(filepath.Join(verifRoot, "evidence", id+".json"), b, 0o644); err != nil {
		die2("cannot write evidence: %v", err)
	}
	// a copy per tier and seed, so that a later run of the other tier does not erase this one
	os.MkdirAll(filepath.Join(verifRoot, "evidence", "runs"), 0o755)
	os.WriteFile(filepath.Join(verifRoot, "evidence", "runs", fmt.Sprintf("%s.%s.seed%d.json", id, *tier, seed)), b, 0o644)
	fmt.Printf("%s tier=%s seed=%d runs=%d distinct_nontrivial=%d steps=%d sim_time=%.0fs wall=%.1fs (build %.1fs)\n", id, *tier, seed, total.Runs, len(distinct), total.Steps, float64(total.SimNS)/1e9, wall, buildS)
	for _, l := range knownLines {
		fmt.Println(l)
	}
	if len(missing) > 0 {
		fmt.Printf("note: probes never hit in this run: %v\n", missing)
	}
	for _, l := range violationLines {
		fmt.Println(l)
	}
	if violations > 0 {
		exit(1)
	}
	if total.Runs == 0 {
		die2("no run was executed")
	}
	exit(0)
}

func samplesOr(s []any, fail any) []any {
	if fail != nil {
		s = append([]any{fail}, s...)
	}
	if len(s) == 0 {
		return []any{"no sample recorded"}
	}
	return s
}

func tail(s string, n int) string {
	lines := strings.Split(s, "\n")
	if len(lines) > n+40 {
		// the cause of a crash is at the head of the output (panic / fatal error line), the
		// goroutine dump that follows can be very long
		head := lines[:40]
		for i, l := range lines {
			if strings.HasPrefix(l, "panic:") || strings.HasPrefix(l, "fatal error:") || strings.HasPrefix(l, "WATCHDOG") || strings.Contains(l, "[running]") {
				if i > 40 {
					head = append(append([]string{}, head...), "  [...]")
					head = append(head, lines[i:min(i+25, len(lines))]...)
				}
				break
			}
		}
		return strings.Join(head, "\n") + "\n  [...]\n" + strings.Join(lines[len(lines)-n:], "\n")
	}
	return strings.Join(lines, "\n")
}

// minimiseAndVerify shrinks f, replays the result in a fresh process and, if it
// reproduces the same rule with the same digest, stores the replay file.
func minimiseAndVerify(c *Check, bin, scratch, tier string, f harness.Record) (string, string) {
	rf := harness.ReplayFile{Property: c.ID, Rule: f.Rule, Detail: f.Detail, Seed: f.Seed, Tier: tier, Decisions: f.Decisions, Digest: f.Digest, Steps: f.Steps}
	raw := filepath.Join(scratch, "raw-"+f.Rule+".json")
	writeJSON(raw, rf)
	// shrink
	sout := filepath.Join(scratch, "shrink-"+f.Rule+".jsonl")
	env := append(append([]string{}, c.Env...), "VERIF_MODE=shrink", "VERIF_REPLAY="+raw, "VERIF_OUT="+sout, "VERIF_SHRINK_S="+strconv.Itoa(c.ShrinkS), "GOMAXPROCS=2")
	if o, err := runWorker(bin, scratch, env, time.Duration(c.ShrinkS)*time.Second+5*time.Minute); err != nil {
		return "", "shrink worker failed: " + err.Error() + "\n" + tail(o, 30)
	}
	recs, err := readRecords(sout)
	if err != nil || len(recs) == 0 {
		return "", fmt.Sprintf("shrink produced no record (%v)", err)
	}
	sr := recs[len(recs)-1]
	min := rf
	note := sr.Msg
	if sr.Rule == f.Rule && !sr.Diverged && sr.Decisions != nil {
		min.Decisions = sr.Decisions
		min.Digest = sr.Digest
		min.Steps = sr.Steps
		min.Detail = sr.Detail
		min.Minimised = true
		min.Events = sr.Events
	} else {
		note = "shrink did not keep the failure (" + sr.Msg + "); using the unminimised run"
	}
	// verify in fresh processes, at two GOMAXPROCS settings; if the minimised candidate does
	// not reproduce (the shrinker's verdict on it came from a process that had run many
	// other candidates before), fall back to the run exactly as it was found
	verify := func(rfile harness.ReplayFile, tag string) string {
		cand := filepath.Join(scratch, tag+"-"+f.Rule+".json")
		writeJSON(cand, rfile)
		for _, procs := range []string{"1", "4"} {
			rout := filepath.Join(scratch, "replay-"+tag+"-"+f.Rule+"-"+procs+".jsonl")
			env := append(append([]string{}, c.Env...), "VERIF_MODE=replay", "VERIF_REPLAY="+cand, "VERIF_OUT="+rout, "GOMAXPROCS="+procs)
			if o, err := runWorker(bin, scratch, env, 10*time.Minute); err != nil {
				return "replay worker failed: " + err.Error() + "\n" + tail(o, 30)
			}
			rr, err := readRecords(rout)
			if err != nil || len(rr) == 0 {
				return "replay produced no record"
			}
			r := rr[0]
			if r.Rule != rfile.Rule || r.Digest != rfile.Digest || r.Diverged {
				return fmt.Sprintf("fresh-process replay differs: rule %q vs %q, digest %s vs %s, diverged=%v %s", r.Rule, rfile.Rule, r.Digest, rfile.Digest, r.Diverged, r.Msg)
			}
		}
		return ""
	}
	if problem := verify(min, "min"); problem != "" {
		if !min.Minimised {
			return "", problem
		}
		if p2 := verify(rf, "raw"); p2 != "" {
			return "", problem + "; the unminimised run: " + p2
		}
		note = "the minimised candidate did not reproduce in a fresh process (" + problem + "); the run is kept as found"
		min = rf
	}
	dir := filepath.Join(verifRoot, "replays", c.ID)
	os.MkdirAll(dir, 0o755)
	final := filepath.Join(dir, f.Rule+"-"+min.Digest+".json")
	writeJSON(final, min)
	return final, note
}

func writeJSON(path string, v any) {
	b, _ := json.MarshalIndent(v, "", " ")
	if err := os.WriteFile(path, b, 0o644); err != nil {
		die2("cannot write %s: %v", path, err)
	}
}

func cmdReplay(args []string) {
	if len(args) < 1 {
		die2("usage: vcheck replay <path>")
	}
	b, err := os.ReadFile(args[0])
	if err != nil {
		die2("%v", err)
	}
	var rf harness.ReplayFile
	if err := json.Unmarshal(b, &rf); err != nil {
		die2("bad replay file: %v", err)
	}
	c := findCheck(rf.Property)
	if c == nil {
		die2("replay file names unknown property %q", rf.Property)
	}
	scratch, _ := os.MkdirTemp("", "vreplay-")
	defer os.RemoveAll(scratch)
	_, bin := build(c, scratch)
	abs, _ := filepath.Abs(args[0])
	rout := filepath.Join(scratch, "replay.jsonl")
	env := append(append([]string{}, c.Env...), "VERIF_MODE=replay", "VERIF_REPLAY="+abs, "VERIF_OUT="+rout, "VERIF_TRACE=1")
	if o, err := runWorker(bin, scratch, env, 10*time.Minute); err != nil {
		os.RemoveAll(scratch)
		die2("replay worker failed: %v\n%s", err, tail(o, 40))
	}
	rr, err := readRecords(rout)
	if err != nil || len(rr) == 0 {
		os.RemoveAll(scratch)
		die2("replay produced no record")
	}
	r := rr[0]
	ev := r.Events
	if len(ev) > 200 && os.Getenv("VERIF_FULL") != "1" {
		ev = ev[len(ev)-200:]
	}
	for _, e := range ev {
		fmt.Println("  ", e)
	}
	fmt.Printf("replay: rule=%q digest=%s (recorded rule=%q digest=%s) diverged=%v\n", r.Rule, r.Digest, rf.Rule, rf.Digest, r.Diverged)
	if r.Rule != "" {
		fmt.Printf("detail: %s\n", r.Detail)
	}
	if r.Rule == rf.Rule && r.Rule != "" {
		fmt.Printf("VIOLATION property=%s replay=%s\n", rf.Property, abs)
		os.RemoveAll(scratch)
		os.Exit(1)
	}
	fmt.Println("the recorded violation does not occur on this tree")
	os.RemoveAll(scratch)
	os.Exit(0)
}

// cmdSelftest: determinism of a harness — the same run indices at GOMAXPROCS 1, 4 and
// 16, twice each, must give identical per-run digests.
func cmdSelftest(args []string) {
	if len(args) < 1 {
		die2("usage: vcheck selftest <ID> [runs]")
	}
	c := findCheck(args[0])
	if c == nil {
		die2("unknown check")
	}
	n := uint64(40)
	if len(args) > 1 {
		n, _ = strconv.ParseUint(args[1], 10, 64)
	}
	scratch, _ := os.MkdirTemp("", "vself-")
	defer os.RemoveAll(scratch)
	_, bin := build(c, scratch)
	var ref string
	ok := true
	for rep := 0; rep < 2; rep++ {
		for _, procs := range []string{"1", "4", "16"} {
			out := filepath.Join(scratch, fmt.Sprintf("self-%s-%d.jsonl", procs, rep))
			env := append(append([]string{}, c.Env...), "VERIF_MODE=run", "VERIF_FROM=0", "VERIF_TO="+strconv.FormatUint(n, 10), "VERIF_OUT="+out, "GOMAXPROCS="+procs, "VERIF_DIGESTS=1", "VERIF_MAXFAILS=1000000", "VERIF_SAMPLES=0")
			if o, err := runWorker(bin, scratch, env, 30*time.Minute); err != nil {
				die2("selftest worker failed: %v\n%s", err, tail(o, 40))
			}
			recs, _ := readRecords(out)
			var sb strings.Builder
			for _, r := range recs {
				if r.Type == "digest" || r.Type == "fail" {
					fmt.Fprintf(&sb, "%d %s %s\n", r.Idx, r.Digest, r.Rule)
				}
			}
			if ref == "" {
				ref = sb.String()
				fmt.Printf("reference: %d runs\n", strings.Count(ref, "\n"))
			} else if sb.String() != ref {
				ok = false
				fmt.Printf("DIVERGENCE at GOMAXPROCS=%s rep=%d\n", procs, rep)
				a, b := strings.Split(ref, "\n"), strings.Split(sb.String(), "\n")
				for i := range a {
					if i < len(b) && a[i] != b[i] {
						fmt.Printf("  run: %q vs %q\n", a[i], b[i])
					}
				}
			}
		}
	}
	os.RemoveAll(scratch)
	if !ok {
		os.Exit(2)
	}
	fmt.Println("selftest ok: digests identical across 2 repetitions x GOMAXPROCS {1,4,16}")
}

// cmdWarm builds every check once so that later builds hit the Go build cache.
func cmdWarm() {
	for i := range checks {
		c := &checks[i]
		scratch, _ := os.MkdirTemp("", "vwarm-")
		build(c, scratch)
		os.RemoveAll(scratch)
		fmt.Println("warm", c.ID)
	}
}
