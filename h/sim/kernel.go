// Package sim is the deterministic simulation kernel: tasks, a seeded scheduler that
// releases exactly one parked goroutine at a time, the choice stream, the event log
// and the fault/probe counters. It runs inside a testing/synctest bubble, whose fake
// clock serves every time.* call of the code under test.
package sim

import (
	"fmt"
	"hash/fnv"
	"os"
	"runtime"
	"sort"
	"strconv"
	"sync"
	"sync/atomic"
	"testing"
	"testing/synctest"
	"time"
)

const (
	tokRun  = 0
	tokKill = 1
)

type taskState int

const (
	stNew taskState = iota
	stRunning
	stReady
	stBlocked // parked by the kernel, waiting for makeReady
	stNative  // released and currently either running or blocked natively
	stDead
)

// Task is one goroutine that executes code under test or harness code.
type Task struct {
	ID       string
	w        *World
	resume   chan int
	state    taskState
	children int
	goid     int64
	dying    bool
	cond     func() bool
	Name     string
	waitOn   string // what a kernel-parked task waits for (diagnostics)
	// lag: simulated time this task has lost to the simulator itself (injected stalls, and
	// waiting to be scheduled while ready); oracles that bound how long an operation of
	// the code under test may take subtract it
	lag     time.Duration
	readyAt time.Time
}

// SelfLag returns the simulated time the calling task has lost so far to injected stalls
// and to waiting for the scheduler while ready.
func (w *World) SelfLag() time.Duration { return w.self("").lag }

// SetWait labels what the task is about to block on (diagnostics only).
func (t *Task) SetWait(what string) { t.waitOn = what }

// Stacks returns all goroutine stacks if VERIF_STACKS=1 (debugging aid).
func Stacks() string {
	if os.Getenv("VERIF_STACKS") != "1" {
		return ""
	}
	buf := make([]byte, 4<<20)
	n := runtime.Stack(buf, true)
	return string(buf[:n])
}

// BlockedSummary lists the kernel-parked tasks and what they wait for.
func (w *World) BlockedSummary() string {
	w.mu.Lock()
	defer w.mu.Unlock()
	var sb []string
	for _, t := range w.all {
		if t.state == stBlocked && t.waitOn != "" {
			sb = append(sb, t.ID+" waits for "+t.waitOn)
		}
	}
	sort.Strings(sb)
	if len(sb) > 30 {
		sb = sb[:30]
	}
	return fmt.Sprint(sb)
}

// Failure is an oracle verdict.
type Failure struct {
	Rule   string `json:"rule"`
	Detail string `json:"detail"`
	Step   int    `json:"step"`
	SimNS  int64  `json:"sim_ns"`
}

// RunConfig is what a harness fixes for one simulated run.
type RunConfig struct {
	Seed        uint64
	Replay      []Decision // non-nil => replay mode
	IsReplay    bool
	Lenient     bool
	MaxSteps    int           // scheduling steps cap (0 => 2e6)
	MaxSim      time.Duration // simulated time cap (0 => 24h)
	IdleLimit   time.Duration // nothing ready for this long of simulated time => quiescent (0 => 1h)
	Trace       bool          // keep the textual event log
	PreemptProb float64       // generation mode: probability that a scheduling decision is not "continue"
	StallProb   float64       // generation mode: probability of a stall at a yield of the running task
	StallMax    time.Duration
	NoLockYield bool
	StepCost    time.Duration // simulated CPU time charged per scheduling step (default 1µs), so busy loops let timers fire
}

// Result is everything a run reports.
type Result struct {
	Seed        uint64
	Digest      uint64
	Steps       int
	Preemptions int
	SimTime     time.Duration
	Decisions   []Decision
	NDecisions  int
	Diverged    bool
	DivergeAt   int
	Failure     *Failure
	Infra       string
	Budget      bool // ended by step/sim-time budget
	Quiescent   bool // ended because nothing could happen any more
	Faults      map[string]int
	Probes      map[string]int
	Leaked      int
	Events      []string
	Counts      map[string]int
}

// World is one simulated run.
type World struct {
	T   *testing.T
	cfg RunConfig

	mu       sync.Mutex
	stream   *Stream
	tasks    map[int64]*Task
	all      []*Task
	ready    map[*Task]struct{}
	awaiting map[*Task]struct{}
	running  *Task
	last     *Task
	wake     chan struct{}
	start    time.Time
	seq      uint64
	dig      uint64
	events   []string
	steps    int
	preempt  int
	lazyN    int
	lazyStep int
	failure  *Failure
	infra    string
	dead     bool
	mainDone bool
	budget   bool
	quiesc   bool
	faults   map[string]int
	probes   map[string]int
	counts   map[string]int
	hooks    []func()
	endHooks []func()
	klocks   map[any]*klock
	lastNow  time.Time
	Values   map[string]any // harness/shim attachments (snet, sfs ...)
	KnobFn   func(name string, def int) int // R8: per-run queue capacities (nil = shipped values)
	PanicOK  func(r any) bool               // panics the scenario declares to be deliberate crashes outside the property's scope
	main     *Task
}

var cur atomic.Pointer[World]

// Steps is a process-wide progress counter read by the wall-clock watchdog.
var Steps atomic.Int64

// Current returns the world of the run in progress, or nil.
func Current() *World { return cur.Load() }

func goid() int64 {
	var buf [40]byte
	n := runtime.Stack(buf[:], false)
	// "goroutine 123 [..."
	var id int64
	for i := 10; i < n; i++ {
		c := buf[i]
		if c < '0' || c > '9' {
			break
		}
		id = id*10 + int64(c-'0')
	}
	return id
}

// Run executes body as the main task of one simulated run inside a synctest bubble.
func Run(t *testing.T, cfg RunConfig, body func(w *World)) (res Result) {
	if cfg.MaxSteps == 0 {
		cfg.MaxSteps = 2_000_000
	}
	if cfg.MaxSim == 0 {
		cfg.MaxSim = 24 * time.Hour
	}
	if cfg.IdleLimit == 0 {
		cfg.IdleLimit = time.Hour
	}
	if cfg.StallMax == 0 {
		cfg.StallMax = 2 * time.Second
	}
	if cfg.StepCost == 0 {
		cfg.StepCost = time.Microsecond
	}
	w := &World{
		T:        t,
		cfg:      cfg,
		tasks:    map[int64]*Task{},
		ready:    map[*Task]struct{}{},
		awaiting: map[*Task]struct{}{},
		faults:   map[string]int{},
		probes:   map[string]int{},
		counts:   map[string]int{},
		Values:   map[string]any{},
		dig:      14695981039346656037,
	}
	if cfg.IsReplay || cfg.Replay != nil {
		w.stream = NewReplayStream(cfg.Replay, cfg.Lenient)
	} else {
		w.stream = NewSeedStream(cfg.Seed)
	}
	if !cur.CompareAndSwap(nil, w) {
		panic("sim.Run: a run is already in progress in this process")
	}
	defer cur.Store(nil)
	func() {
		defer func() {
			if r := recover(); r != nil {
				s := fmt.Sprint(r)
				if len(s) >= 9 && s[:9] == "deadlock:" {
					// leaked, forever-blocked goroutines at the end of the bubble
					w.mu.Lock()
					leaked := 0
					for _, tk := range w.all {
						if tk.state != stDead {
							leaked++
						}
					}
					w.counts["leaked_goroutines"] = leaked
					w.mu.Unlock()
					return
				}
				panic(r)
			}
		}()
		synctest.Test(t, func(t *testing.T) {
			w.start = time.Now()
			w.wake = make(chan struct{}, 1)
			w.main = w.newTask("0")
			w.main.Name = "main"
			w.markReady(w.main)
			go func() {
				w.enter(w.main)
				defer w.exit(w.main)
				defer func() {
					w.mu.Lock()
					w.mainDone = true
					w.mu.Unlock()
				}()
				body(w)
			}()
			w.schedLoop()
			w.shutdown()
		})
	}()
	res = Result{
		Seed:        cfg.Seed,
		Digest:      w.dig,
		Steps:       w.steps,
		Preemptions: w.preempt,
		SimTime:     w.simNow(),
		Decisions:   w.stream.Log,
		NDecisions:  w.stream.pos,
		Diverged:    w.stream.Diverged,
		DivergeAt:   w.stream.DivergeAt,
		Failure:     w.failure,
		Infra:       w.infra,
		Budget:      w.budget,
		Quiescent:   w.quiesc,
		Faults:      w.faults,
		Probes:      w.probes,
		Events:      w.events,
		Counts:      w.counts,
	}
	res.Leaked = w.counts["leaked_goroutines"]
	for k := Kind(0); k < nKinds; k++ {
		w.counts["dec_"+k.String()] = w.stream.counts[k]
		w.counts["nz_"+k.String()] = w.stream.nonzero[k]
	}
	return res
}

var lastSim atomic.Int64

func (w *World) simNow() time.Duration {
	if w.start.IsZero() {
		return 0
	}
	return time.Duration(lastSim.Load())
}

func (w *World) newTask(id string) *Task {
	t := &Task{ID: id, w: w, resume: make(chan int, 1), state: stNew}
	w.all = append(w.all, t)
	return t
}

func (w *World) markReady(t *Task) {
	// caller holds no lock
	w.mu.Lock()
	w.markReadyLocked(t)
	w.mu.Unlock()
}

func (w *World) markReadyLocked(t *Task) {
	if t.state == stDead {
		return
	}
	if t.state != stReady {
		t.readyAt = time.Now()
	}
	t.state = stReady
	w.ready[t] = struct{}{}
	select {
	case w.wake <- struct{}{}:
	default:
	}
}

// enter binds the calling goroutine to t and parks until first scheduled.
func (w *World) enter(t *Task) {
	g := goid()
	w.mu.Lock()
	t.goid = g
	w.tasks[g] = t
	w.mu.Unlock()
	w.park(t)
}

func (w *World) exit(t *Task) {
	w.mu.Lock()
	t.state = stDead
	delete(w.tasks, t.goid)
	delete(w.ready, t)
	delete(w.awaiting, t)
	if w.running == t {
		w.running = nil
	}
	w.mu.Unlock()
}

// park blocks the calling task until the scheduler releases it.
func (w *World) park(t *Task) {
	tok := <-t.resume
	if tok == tokKill {
		t.dying = true
		runtime.Goexit()
	}
	if !t.readyAt.IsZero() {
		t.lag += time.Since(t.readyAt)
		t.readyAt = time.Time{}
	}
}

// self returns the task of the calling goroutine, registering it lazily (goroutines
// born inside the standard library) under key.
func (w *World) self(key string) *Task {
	g := goid()
	w.mu.Lock()
	t := w.tasks[g]
	if t == nil {
		w.lazyN++
		if key == "" {
			// identity by arrival order: sound only if at most one such registration
			// happens per scheduling step
			if w.lazyStep == w.steps+1 {
				w.infra = "two anonymous lazy task registrations in one scheduling step"
			}
			w.lazyStep = w.steps + 1
			key = "z" + strconv.Itoa(w.lazyN)
		}
		t = w.newTask("L:" + key)
		t.goid = g
		t.state = stNative
		w.tasks[g] = t
	}
	w.mu.Unlock()
	return t
}

// Self returns the current task's id ("" outside a run).
func Self() string {
	w := cur.Load()
	if w == nil {
		return ""
	}
	return w.self("").ID
}

// Spawn is the parent half of an instrumented go statement.
func Spawn() *Task {
	w := cur.Load()
	if w == nil {
		return nil
	}
	p := w.self("")
	w.mu.Lock()
	p.children++
	t := w.newTask(p.ID + "." + strconv.Itoa(p.children))
	w.markReadyLocked(t)
	w.mu.Unlock()
	return t
}

// Enter is the child half.
func Enter(t *Task) {
	if t == nil {
		return
	}
	t.w.enter(t)
}

// Exit is deferred by the child. A panic escaping the goroutine would crash the real
// process; in simulation it is recorded as an oracle verdict ("panic") and the run ends.
func Exit(t *Task) {
	if t == nil {
		return
	}
	if r := recover(); r != nil {
		w := t.w
		buf := make([]byte, 6000)
		n := runtime.Stack(buf, false)
		w.mu.Lock()
		if w.failure == nil && !w.dead && w.PanicOK != nil && w.PanicOK(r) {
			// a crash the code under test performs on purpose in a situation its documentation
			// excludes: the process would be gone; the run ends without a verdict and is counted
			w.failure = &Failure{Rule: DiscardRule, Detail: fmt.Sprintf("goroutine %s panicked by design: %v", t.ID, r), Step: w.steps, SimNS: int64(time.Since(w.start))}
		}
		if w.failure == nil && !w.dead {
			w.failure = &Failure{Rule: "panic", Detail: fmt.Sprintf("goroutine %s panicked: %v\n%s", t.ID, r, buf[:n]), Step: w.steps, SimNS: int64(time.Since(w.start))}
		}
		w.mu.Unlock()
	}
	t.w.exit(t)
}

// klock is a scheduler-visible lock keyed by object identity, used to serialise calls
// that take a mutex inside the standard library (gob Encoder/Decoder): a task parked by
// the simulator inside such a call must not leave another task blocked on the real
// mutex, which synctest cannot see.
type klock struct {
	held    bool
	waiters []*Task
}

// Locked runs f while holding the simulator lock for key (instrumentation rule R6).
func Locked[T any](key any, f func() T) T {
	w := cur.Load()
	if w == nil {
		return f()
	}
	t := w.self("")
	if t.dying {
		return f()
	}
	w.mu.Lock()
	if w.klocks == nil {
		w.klocks = map[any]*klock{}
	}
	l := w.klocks[key]
	if l == nil {
		l = &klock{}
		w.klocks[key] = l
	}
	if l.held {
		l.waiters = append(l.waiters, t)
		w.probes["stdlib_lock_contended"]++
		w.mu.Unlock()
		w.Block(t) // ownership handed over by the releaser
	} else {
		l.held = true
		w.mu.Unlock()
	}
	defer func() {
		w.mu.Lock()
		if len(l.waiters) > 0 {
			nx := l.waiters[0]
			l.waiters = l.waiters[1:]
			w.markReadyLocked(nx)
		} else {
			l.held = false
			delete(w.klocks, key)
		}
		w.mu.Unlock()
	}()
	return f()
}

// Go starts f as a new task (harness side).
func (w *World) Go(name string, f func()) *Task {
	t := Spawn()
	t.Name = name
	go func() {
		Enter(t)
		defer Exit(t)
		f()
	}()
	return t
}

// Yield makes the calling task ready and parks it until it is scheduled again.
func Yield() {
	w := cur.Load()
	if w == nil {
		return
	}
	w.yield(w.self(""))
}

// YieldAs is Yield for goroutines created inside the standard library; key names them.
func YieldAs(key string) {
	w := cur.Load()
	if w == nil {
		return
	}
	w.yield(w.self(key))
}

func (w *World) yield(t *Task) {
	if t.dying {
		return
	}
	w.mu.Lock()
	if w.dead {
		w.mu.Unlock()
		t.dying = true
		runtime.Goexit()
	}
	isRunning := w.running == t
	w.mu.Unlock()
	if isRunning && w.cfg.StallProb > 0 {
		if v := w.stream.choose(KStall, 9, 1-w.cfg.StallProb); v > 0 {
			// 8 stall lengths, geometric up to StallMax
			d := w.cfg.StallMax >> uint(8-v)
			if d <= 0 {
				d = time.Microsecond
			}
			w.mu.Lock()
			w.faults["stall"]++
			w.running = nil
			w.mu.Unlock()
			w.logf("stall %s %v", t.ID, d)
			t.lag += d
			time.Sleep(d)
		}
	}
	w.markReady(t)
	w.park(t)
}

// Block parks the calling task without making it ready; some other party must call
// Wake. Used by the ssync and snet shims. Returns the task for registration before
// parking via the prepare callback, which runs with the kernel lock NOT held.
func (w *World) SelfTask() *Task { return w.self("") }

func (w *World) SelfTaskKey(key string) *Task { return w.self(key) }

func (w *World) Block(t *Task) {
	if t.dying {
		return
	}
	w.mu.Lock()
	if w.dead {
		w.mu.Unlock()
		t.dying = true
		runtime.Goexit()
	}
	if t.state != stReady { // a Wake may already have happened
		t.state = stBlocked
	}
	if w.running == t {
		w.running = nil
	}
	w.mu.Unlock()
	w.park(t)
}

// Wake makes a task parked with Block ready.
func (w *World) Wake(t *Task) { w.markReady(t) }

func (t *Task) Dying() bool { return t.dying }

func (w *World) schedLoop() {
	idle := time.NewTimer(time.Hour)
	idle.Stop()
	busy := 0
	for {
		synctest.Wait()
		if busy >= 64 {
			// charge simulated CPU time for the last 64 steps
			busy = 0
			time.Sleep(64 * w.cfg.StepCost)
			continue
		}
		now := time.Since(w.start)
		lastSim.Store(int64(now))
		w.mu.Lock()
		w.running = nil
		if w.failure != nil || w.mainDone || w.infra != "" {
			w.mu.Unlock()
			return
		}
		if w.steps >= w.cfg.MaxSteps || now > w.cfg.MaxSim {
			w.budget = true
			w.mu.Unlock()
			return
		}
		var conds []*Task
		for t := range w.awaiting {
			conds = append(conds, t)
		}
		hooks := w.hooks
		w.mu.Unlock()
		for _, h := range hooks {
			h()
		}
		if w.failure != nil {
			return
		}
		if len(conds) > 0 {
			sort.Slice(conds, func(i, j int) bool { return conds[i].ID < conds[j].ID })
			for _, t := range conds {
				if t.cond() {
					w.mu.Lock()
					delete(w.awaiting, t)
					w.markReadyLocked(t)
					w.mu.Unlock()
				}
			}
		}
		w.mu.Lock()
		n := len(w.ready)
		if n == 0 {
			w.mu.Unlock()
			// nothing ready: let the fake clock move to the next timer
			select {
			case <-w.wake:
				continue
			default:
			}
			busy = 0
			idle.Reset(w.cfg.IdleLimit)
			select {
			case <-w.wake:
				idle.Stop()
				continue
			case <-idle.C:
				w.quiesc = true
				return
			}
		}
		rs := make([]*Task, 0, n)
		for t := range w.ready {
			rs = append(rs, t)
		}
		w.mu.Unlock()
		sort.Slice(rs, func(i, j int) bool { return rs[i].ID < rs[j].ID })
		if w.last != nil {
			for i, t := range rs {
				if t == w.last {
					copy(rs[1:i+1], rs[:i])
					rs[0] = t
					break
				}
			}
		}
		v := w.stream.choose(KSched, len(rs), 1-w.cfg.PreemptProb)
		pick := rs[v]
		if w.last != nil && pick != w.last && rs[0] == w.last {
			w.preempt++
		}
		w.steps++
		busy++
		Steps.Add(1)
		w.logf("run %s", pick.ID)
		w.mu.Lock()
		delete(w.ready, pick)
		pick.state = stNative
		w.running = pick
		w.last = pick
		// drain stale wake token so the idle path blocks properly
		select {
		case <-w.wake:
		default:
		}
		w.mu.Unlock()
		pick.resume <- tokRun
	}
}

func (w *World) shutdown() {
	lastSim.Store(int64(time.Since(w.start)))
	for _, h := range w.endHooks {
		h()
	}
	w.mu.Lock()
	w.dead = true
	var parked []*Task
	for _, t := range w.all {
		if t.state == stReady || t.state == stBlocked || t.state == stNew {
			parked = append(parked, t)
		}
	}
	w.mu.Unlock()
	for _, t := range parked {
		select {
		case t.resume <- tokKill:
		default:
		}
	}
	synctest.Wait()
}

// ---- harness API ----

func (w *World) Choose(kind Kind, n int) int { return w.stream.choose(kind, n, -1) }

// ChooseP draws with probability p0 for the default 0.
func (w *World) ChooseP(kind Kind, n int, p0 float64) int { return w.stream.choose(kind, n, p0) }

func (w *World) Now() time.Duration { return time.Since(w.start) }

// Now stands in for time.Now in instrumented code (rule R7): the bubble's fake clock does
// not move while a task runs, so two consecutive calls would return the identical
// instant, which real hardware never does (nanosecond resolution). Each call returns a
// strictly later time than the previous one, by at least 1 ns, deterministically.
func Now() time.Time {
	w := cur.Load()
	t := time.Now()
	if w == nil {
		return t
	}
	w.mu.Lock()
	if !t.After(w.lastNow) {
		t = w.lastNow.Add(time.Nanosecond)
	}
	w.lastNow = t
	w.mu.Unlock()
	return t
}

// DiscardRule marks a run that ended without a verdict (see World.PanicOK).
const DiscardRule = "__discarded__"

// Knob stands in for a literal queue capacity in instrumented code (rule R8): def unless the
// harness of the run in progress installed a KnobFn, which then decides (from the choice
// stream, so the capacity is part of the replay file).
func Knob(name string, def int) int {
	w := cur.Load()
	if w == nil || w.KnobFn == nil {
		return def
	}
	v := w.KnobFn(name, def)
	if v < 1 || v > def {
		v = def
	}
	if v != def {
		w.Fault("queue_capacity_reduced")
		w.Event("knob %s: capacity %d instead of %d", name, v, def)
	}
	return v
}

// Config returns the run's configuration (harnesses derive scenario classes from it).
func (w *World) Config() RunConfig { return w.cfg }

func (w *World) Seq() uint64 {
	w.seq++
	return w.seq
}

func (w *World) StepCount() int { return w.steps }

func (w *World) logf(format string, args ...any) {
	s := fmt.Sprintf(format, args...)
	h := fnv.New64a()
	var b [8]byte
	for i := 0; i < 8; i++ {
		b[i] = byte(w.dig >> (8 * i))
	}
	h.Write(b[:])
	h.Write([]byte(s))
	w.dig = h.Sum64()
	if w.cfg.Trace || len(w.events) < 32 {
		w.events = append(w.events, fmt.Sprintf("%d %v %s", w.steps, time.Since(w.start), s))
	}
}

// Event appends to the event log (and the interleaving digest). Must be called by the
// running task or from a scheduler hook only. Never draws, never reads a real clock.
func (w *World) Event(format string, args ...any) { w.logf(format, args...) }

// Note appends to the textual event log only (not to the digest): diagnostics that must
// not make a traced replay differ from an untraced one.
func (w *World) Note(format string, args ...any) {
	if w.cfg.Trace {
		w.events = append(w.events, fmt.Sprintf("%d %v # %s", w.steps, time.Since(w.start), fmt.Sprintf(format, args...)))
	}
}

func (w *World) Probe(name string) {
	w.mu.Lock()
	w.probes[name]++
	w.mu.Unlock()
}

func (w *World) Fault(name string) {
	w.mu.Lock()
	w.faults[name]++
	w.mu.Unlock()
}

func (w *World) Count(name string, d int) {
	w.mu.Lock()
	w.counts[name] += d
	w.mu.Unlock()
}

// Fail records an oracle verdict and ends the run. If called from a task the task
// stops here.
func (w *World) Fail(rule string, format string, args ...any) {
	w.mu.Lock()
	if w.failure == nil {
		w.failure = &Failure{Rule: rule, Detail: fmt.Sprintf(format, args...), Step: w.steps, SimNS: int64(time.Since(w.start))}
	}
	g := goid()
	t := w.tasks[g]
	w.mu.Unlock()
	if t != nil {
		t.dying = true
		runtime.Goexit()
	}
}

func (w *World) Failed() bool {
	w.mu.Lock()
	defer w.mu.Unlock()
	return w.failure != nil
}

// Infra reports a problem of the machinery itself (never a property verdict).
func (w *World) Infra(format string, args ...any) {
	w.mu.Lock()
	if w.infra == "" {
		w.infra = fmt.Sprintf(format, args...)
	}
	w.mu.Unlock()
}

// OnStep registers a hook evaluated at every scheduling point (no task is running).
func (w *World) OnStep(h func()) { w.hooks = append(w.hooks, h) }

// OnEnd registers a hook run once after the last step, before tasks are killed.
func (w *World) OnEnd(h func()) { w.endHooks = append(w.endHooks, h) }

// Sleep advances the calling task by d of simulated time.
func (w *World) Sleep(d time.Duration) {
	t := w.self("")
	w.mu.Lock()
	if w.running == t {
		w.running = nil
	}
	w.mu.Unlock()
	time.Sleep(d)
	Yield()
}

// Await parks the calling task until cond holds (evaluated at scheduling points) or
// timeout of simulated time passes; reports whether cond held.
func (w *World) Await(cond func() bool, timeout time.Duration) bool {
	if cond() {
		return true
	}
	t := w.self("")
	fired := false
	tm := time.AfterFunc(timeout, func() {
		w.mu.Lock()
		if _, ok := w.awaiting[t]; ok {
			fired = true
			delete(w.awaiting, t)
			w.markReadyLocked(t)
		}
		w.mu.Unlock()
	})
	w.mu.Lock()
	t.cond = cond
	w.awaiting[t] = struct{}{}
	w.mu.Unlock()
	w.Block(t)
	tm.Stop()
	_ = fired
	return cond()
}

// Keys returns the keys of m in a deterministic order (sorted by rendering), then
// rotated by a stream decision so that the order in which resources are committed,
// aborted or closed is an explored dimension.
func Keys[K comparable, V any](m map[K]V) []K {
	ks := make([]K, 0, len(m))
	for k := range m {
		ks = append(ks, k)
	}
	if len(ks) < 2 {
		return ks
	}
	strs := make([]string, len(ks))
	for i, k := range ks {
		strs[i] = fmt.Sprint(k)
	}
	idx := make([]int, len(ks))
	for i := range idx {
		idx[i] = i
	}
	sort.Slice(idx, func(a, b int) bool { return strs[idx[a]] < strs[idx[b]] })
	out := make([]K, len(ks))
	for i, j := range idx {
		out[i] = ks[j]
	}
	w := cur.Load()
	if w != nil && !w.dead {
		g := goid()
		w.mu.Lock()
		t := w.tasks[g]
		run := t != nil && w.running == t
		w.mu.Unlock()
		if run {
			// rotation + optional reversal: 2n orders, one decision
			v := w.stream.choose(KKeys, 2*len(out), 0.5)
			if v > 0 {
				r := v % len(out)
				rot := append(append([]K{}, out[r:]...), out[:r]...)
				if v >= len(out) {
					for i, j := 0, len(rot)-1; i < j; i, j = i+1, j-1 {
						rot[i], rot[j] = rot[j], rot[i]
					}
				}
				out = rot
			}
		}
	}
	return out
}

// TaskChoose is Choose for shim code called from code under test: it verifies that the
// caller is the task the scheduler released (the stream is not shared between
// goroutines); anything else is a machinery error.
func (w *World) TaskChoose(kind Kind, n int, p0 float64) int {
	if n <= 1 {
		return 0
	}
	g := goid()
	w.mu.Lock()
	t := w.tasks[g]
	ok := t != nil && w.running == t
	dead := w.dead
	if !ok && !dead && w.infra == "" {
		id := "?"
		if t != nil {
			id = t.ID
		}
		w.infra = "stream draw (" + kind.String() + ") by a goroutine that is not the running task: " + id
	}
	w.mu.Unlock()
	if !ok {
		return 0
	}
	return w.stream.choose(kind, n, p0)
}
