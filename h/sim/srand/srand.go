// Package srand stands in for math/rand in the instrumented code: every value is a
// decision of the run's choice stream (kind "rand"); 0 is the default.
package srand

import (
	"math/rand"

	"verif/sim"
)

type Rand = rand.Rand
type Source = rand.Source

const span = 1 << 16

func draw() uint64 {
	w := sim.Current()
	if w == nil {
		return rand.Uint64()
	}
	v := w.TaskChoose(sim.KRand, span, 0.5)
	if v == 0 {
		return 0
	}
	return sim.SplitMix64(uint64(v))
}

type streamSource struct{}

func (streamSource) Int63() int64 { return int64(draw() >> 1) }
func (streamSource) Seed(int64)   {}

// NewSource ignores the seed: the stream is the seed.
func NewSource(seed int64) Source {
	if sim.Current() == nil {
		return rand.NewSource(seed)
	}
	return streamSource{}
}

func New(src Source) *Rand { return rand.New(src) }

func scaled(n int64) int64 {
	if n <= 0 {
		panic("invalid argument to srand")
	}
	w := sim.Current()
	if w == nil {
		return rand.Int63n(n)
	}
	if n <= span {
		return int64(w.TaskChoose(sim.KRand, int(n), 0.5))
	}
	k := int64(w.TaskChoose(sim.KRand, span, 0.5))
	return (n / span) * k
}

func Int63n(n int64) int64 { return scaled(n) }
func Int31n(n int32) int32 { return int32(scaled(int64(n))) }
func Intn(n int) int       { return int(scaled(int64(n))) }
func Int63() int64         { return int64(draw() >> 1) }
func Int31() int32         { return int32(draw() >> 33) }
func Int() int             { return int(draw() >> 1) }
func Uint32() uint32       { return uint32(draw() >> 32) }
func Uint64() uint64       { return draw() }
func Float64() float64     { return float64(draw()>>11) / (1 << 53) }
func Seed(int64)           {}
func Perm(n int) []int {
	p := make([]int, n)
	for i := range p {
		p[i] = i
	}
	for i := n - 1; i > 0; i-- {
		j := int(scaled(int64(i + 1)))
		p[i], p[j] = p[j], p[i]
	}
	return p
}
func Shuffle(n int, swap func(i, j int)) {
	for i := n - 1; i > 0; i-- {
		swap(i, int(scaled(int64(i+1))))
	}
}
