package sim

import (
	"fmt"
	"os"
	"strconv"
	"testing"
	"time"
)

// toy: producers/consumers over channels with hand-placed yields, a ticker and a
// select; the digest must be a function of the seed only.
func toy(w *World) {
	ch := make(chan int)
	done := make(chan struct{})
	sum := 0
	for p := 0; p < 3; p++ {
		p := p
		w.Go("prod", func() {
			for i := 0; i < 5; i++ {
				Yield()
				ch <- p*100 + i
				Yield()
				if w.Choose(KOp, 3) == 1 {
					w.Sleep(time.Duration(1+w.Choose(KOp, 5)) * time.Millisecond)
				}
			}
		})
	}
	w.Go("cons", func() {
		tk := time.NewTicker(3 * time.Millisecond)
		n := 0
		for n < 15 {
			r1 := Recv(ch)
			r2 := Recv(tk.C)
			switch Select(false, r1, r2) {
			case 0:
				sum += r1.Val
				n++
				w.Event("got %d", r1.Val)
			case 1:
				w.Event("tick")
			}
		}
		close(done)
	})
	Yield()
	<-done
	Yield()
	w.Event("sum %d", sum)
}

func TestToyDeterminism(t *testing.T) {
	seed := uint64(1)
	if s := os.Getenv("VERIF_SEED"); s != "" {
		v, _ := strconv.ParseUint(s, 10, 64)
		seed = v
	}
	for i := uint64(0); i < 200; i++ {
		rs := RunSeed(seed, "toy", i)
		r1 := Run(t, RunConfig{Seed: rs, PreemptProb: 0.3, StallProb: 0.05, StallMax: 20 * time.Millisecond}, toy)
		if r1.Infra != "" {
			t.Fatalf("infra: %s", r1.Infra)
		}
		r2 := Run(t, RunConfig{Replay: r1.Decisions, IsReplay: true, PreemptProb: 0.3, StallProb: 0.05, StallMax: 20 * time.Millisecond}, toy)
		if r1.Digest != r2.Digest || r2.Diverged {
			t.Fatalf("seed %d: digest %x vs replay %x diverged=%v", rs, r1.Digest, r2.Digest, r2.Diverged)
		}
		fmt.Printf("D %d %x %d %d\n", i, r1.Digest, r1.Steps, len(r1.Decisions))
	}
}
