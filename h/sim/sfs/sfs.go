// Package sfs stands in for io/ioutil.ReadFile/WriteFile: an in-memory file system per
// simulated run, with optional injected errors.
package sfs

import (
	"io/fs"
	"io/ioutil"
	"os"
	"sort"
	"sync"

	"verif/sim"
)

type FS struct {
	mu    sync.Mutex
	Files map[string][]byte
	// FailWrite / FailRead, if set, decide whether the operation fails.
	FailWrite func(name string) error
	FailRead  func(name string) error
	Writes    int
	Reads     int
}

func Of(w *sim.World) *FS {
	if v, ok := w.Values["sfs"]; ok {
		return v.(*FS)
	}
	f := &FS{Files: map[string][]byte{}}
	w.Values["sfs"] = f
	return f
}

func ReadFile(name string) ([]byte, error) {
	w := sim.Current()
	if w == nil {
		return ioutil.ReadFile(name)
	}
	f := Of(w)
	f.mu.Lock()
	defer f.mu.Unlock()
	f.Reads++
	if f.FailRead != nil {
		if err := f.FailRead(name); err != nil {
			return nil, err
		}
	}
	b, ok := f.Files[name]
	if !ok {
		return nil, &fs.PathError{Op: "open", Path: name, Err: os.ErrNotExist}
	}
	return append([]byte(nil), b...), nil
}

func WriteFile(name string, data []byte, perm fs.FileMode) error {
	w := sim.Current()
	if w == nil {
		return ioutil.WriteFile(name, data, perm)
	}
	f := Of(w)
	f.mu.Lock()
	defer f.mu.Unlock()
	f.Writes++
	if f.FailWrite != nil {
		if err := f.FailWrite(name); err != nil {
			return err
		}
	}
	f.Files[name] = append([]byte(nil), data...)
	return nil
}

func (f *FS) Names() []string {
	f.mu.Lock()
	defer f.mu.Unlock()
	var ns []string
	for n := range f.Files {
		ns = append(ns, n)
	}
	sort.Strings(ns)
	return ns
}
