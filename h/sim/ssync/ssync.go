// Package ssync is the scheduler-aware stand-in for package sync used by the
// instrumented copy of the code under test. Outside a simulated run every type falls
// back to the real primitive.
package ssync

import (
	"fmt"
	"runtime"
	"sync"

	"verif/sim"
)

type Locker = sync.Locker

func site(kind string) string {
	_, f, l, _ := runtime.Caller(2)
	for i := len(f) - 1; i >= 0; i-- {
		if f[i] == '/' {
			f = f[i+1:]
			break
		}
	}
	return fmt.Sprintf("%s at %s:%d", kind, f, l)
}

// Mutex: uncontended lock is a flag flip after a yield; contended lock parks the task
// through the kernel (a scheduling point the simulator sees, unlike a real mutex).
type Mutex struct {
	real    sync.Mutex
	g       sync.Mutex // guards the fields below against goroutines in transit
	held    bool
	waiters []*sim.Task
	epoch   *sim.World
}

// fresh resets state left over from an earlier run (a task killed while holding it).
func (m *Mutex) fresh(w *sim.World) {
	if m.epoch != w {
		m.epoch = w
		m.held = false
		m.waiters = nil
	}
}

func (m *Mutex) Lock() {
	w := sim.Current()
	if w == nil {
		m.real.Lock()
		return
	}
	t := w.SelfTask()
	if t.Dying() {
		return
	}
	sim.Yield()
	m.g.Lock()
	m.fresh(w)
	if !m.held {
		m.held = true
		m.g.Unlock()
		return
	}
	m.waiters = append(m.waiters, t)
	m.g.Unlock()
	w.Probe("mutex_contended")
	t.SetWait(site("Mutex.Lock"))
	w.Block(t)
	t.SetWait("")
	// ownership was handed over by Unlock
}

func (m *Mutex) TryLock() bool {
	w := sim.Current()
	if w == nil {
		return m.real.TryLock()
	}
	m.g.Lock()
	defer m.g.Unlock()
	m.fresh(w)
	if m.held {
		return false
	}
	m.held = true
	return true
}

func (m *Mutex) Unlock() {
	w := sim.Current()
	if w == nil {
		m.real.Unlock()
		return
	}
	m.g.Lock()
	m.fresh(w)
	if !m.held {
		m.g.Unlock()
		if t := w.SelfTask(); t.Dying() {
			return
		}
		panic("ssync: unlock of unlocked mutex")
	}
	if len(m.waiters) > 0 {
		nx := m.waiters[0]
		m.waiters = m.waiters[1:]
		m.g.Unlock()
		w.Wake(nx) // stays held, owner is now nx
		return
	}
	m.held = false
	m.g.Unlock()
}

// RWMutex with writer preference like the real one (a waiting writer blocks new readers).
type RWMutex struct {
	real    sync.RWMutex
	g       sync.Mutex
	readers int
	writer  bool
	wq      []rwWaiter
	epoch   *sim.World
}

func (m *RWMutex) fresh(w *sim.World) {
	if m.epoch != w {
		m.epoch = w
		m.readers, m.writer, m.wq = 0, false, nil
	}
}

type rwWaiter struct {
	t     *sim.Task
	write bool
}

func (m *RWMutex) Lock() {
	w := sim.Current()
	if w == nil {
		m.real.Lock()
		return
	}
	t := w.SelfTask()
	if t.Dying() {
		return
	}
	sim.Yield()
	m.g.Lock()
	m.fresh(w)
	if !m.writer && m.readers == 0 {
		m.writer = true
		m.g.Unlock()
		return
	}
	m.wq = append(m.wq, rwWaiter{t, true})
	m.g.Unlock()
	w.Probe("rwmutex_contended")
	t.SetWait(site("RWMutex.Lock"))
	w.Block(t)
	t.SetWait("")
}

func (m *RWMutex) RLock() {
	w := sim.Current()
	if w == nil {
		m.real.RLock()
		return
	}
	t := w.SelfTask()
	if t.Dying() {
		return
	}
	sim.Yield()
	m.g.Lock()
	m.fresh(w)
	if !m.writer && len(m.wq) == 0 {
		m.readers++
		m.g.Unlock()
		return
	}
	m.wq = append(m.wq, rwWaiter{t, false})
	m.g.Unlock()
	w.Probe("rwmutex_contended")
	t.SetWait(site("RWMutex.RLock"))
	w.Block(t)
	t.SetWait("")
}

func (m *RWMutex) grant(w *sim.World) {
	// called with m.g held; hands the lock to the head of the queue if possible
	for len(m.wq) > 0 {
		h := m.wq[0]
		if h.write {
			if m.writer || m.readers > 0 {
				return
			}
			m.writer = true
			m.wq = m.wq[1:]
			w.Wake(h.t)
			return
		}
		if m.writer {
			return
		}
		m.readers++
		m.wq = m.wq[1:]
		w.Wake(h.t)
	}
}

func (m *RWMutex) Unlock() {
	w := sim.Current()
	if w == nil {
		m.real.Unlock()
		return
	}
	m.g.Lock()
	m.fresh(w)
	if !m.writer {
		m.g.Unlock()
		if t := w.SelfTask(); t.Dying() {
			return
		}
		panic("ssync: unlock of unlocked rwmutex")
	}
	m.writer = false
	m.grant(w)
	m.g.Unlock()
}

func (m *RWMutex) RUnlock() {
	w := sim.Current()
	if w == nil {
		m.real.RUnlock()
		return
	}
	m.g.Lock()
	m.fresh(w)
	if m.readers <= 0 {
		m.g.Unlock()
		if t := w.SelfTask(); t.Dying() {
			return
		}
		panic("ssync: runlock of unlocked rwmutex")
	}
	m.readers--
	m.grant(w)
	m.g.Unlock()
}

func (m *RWMutex) RLocker() Locker { return (*rlocker)(m) }

type rlocker RWMutex

func (r *rlocker) Lock()   { (*RWMutex)(r).RLock() }
func (r *rlocker) Unlock() { (*RWMutex)(r).RUnlock() }

type WaitGroup struct {
	real    sync.WaitGroup
	g       sync.Mutex
	n       int
	waiters []*sim.Task
}

func (wg *WaitGroup) Add(d int) {
	w := sim.Current()
	if w == nil {
		wg.real.Add(d)
		return
	}
	wg.g.Lock()
	wg.n += d
	if wg.n < 0 {
		wg.g.Unlock()
		panic("ssync: negative WaitGroup counter")
	}
	if wg.n == 0 {
		ws := wg.waiters
		wg.waiters = nil
		wg.g.Unlock()
		for _, t := range ws {
			w.Wake(t)
		}
		return
	}
	wg.g.Unlock()
}

func (wg *WaitGroup) Done() { wg.Add(-1) }

func (wg *WaitGroup) Wait() {
	w := sim.Current()
	if w == nil {
		wg.real.Wait()
		return
	}
	t := w.SelfTask()
	if t.Dying() {
		return
	}
	sim.Yield()
	wg.g.Lock()
	if wg.n == 0 {
		wg.g.Unlock()
		return
	}
	wg.waiters = append(wg.waiters, t)
	wg.g.Unlock()
	w.Block(t)
}

type Once struct {
	m    Mutex
	done bool
}

func (o *Once) Do(f func()) {
	if o.done {
		return
	}
	o.m.Lock()
	defer o.m.Unlock()
	if !o.done {
		defer func() { o.done = true }()
		f()
	}
}

// Map and Pool are passed through (not used by the instrumented packages at the pinned
// commit; the census reports any new use).
type Map = sync.Map
type Pool = sync.Pool
type Cond = sync.Cond

func NewCond(l Locker) *Cond { return sync.NewCond(l) }
