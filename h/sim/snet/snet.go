// Package snet stands in for package net in the instrumented code: in-memory,
// TCP-like byte streams between simulated nodes, with simulated latency, refused and
// timed-out dials, resets, partitions (black holes) and heals. All blocking goes
// through the simulation kernel; all timing reads the bubble's fake clock; every
// random quantity is a decision of the run's choice stream.
package snet

import (
	"errors"
	"fmt"
	"io"
	"net"
	"os"
	"strconv"
	"strings"
	"sync"
	"syscall"
	"time"

	"verif/sim"
)

type (
	Conn     = net.Conn
	Listener = net.Listener
	Addr     = net.Addr
	Error    = net.Error
	OpError  = net.OpError
	TCPAddr  = net.TCPAddr
)

var ErrClosed = net.ErrClosed

// Net is the simulated network of one run.
type Net struct {
	w  *sim.World
	mu sync.Mutex

	listeners map[string]*listener
	conns     []*conn // dialer-side ends; peer is conn.peer
	nextPort  int

	// configuration (set by the harness before traffic starts)
	LatencyMin time.Duration // base one-way latency of every chunk (default 50µs)
	LatencyMax time.Duration // extra per-chunk latency is drawn in [0, LatencyMax]
	LatencyP0  float64       // probability of the minimal latency
	BufBytes   int           // per-direction buffer (0 = unbounded): Write blocks, subject to its deadline, while that many bytes are unread
	nodePrefix map[string]string // task-id prefix -> node name
	addrNode   map[string]string // listen address key -> node name
	isolated   map[string]bool
	cut        map[[2]string]bool // links between two nodes that hold their bytes (partial partition)
	refuse     map[string]bool

	// observation
	OnChunk func(connID int, fromDialer bool, data []byte)

	Stats map[string]int
}

// Of returns the network of the run (created on first use).
func Of(w *sim.World) *Net {
	if v, ok := w.Values["snet"]; ok {
		return v.(*Net)
	}
	n := &Net{
		w:          w,
		listeners:  map[string]*listener{},
		nextPort:   40000,
		nodePrefix: map[string]string{},
		addrNode:   map[string]string{},
		isolated:   map[string]bool{},
		cut:        map[[2]string]bool{},
		refuse:     map[string]bool{},
		Stats:      map[string]int{},
		LatencyP0:  0.5,
		LatencyMin: 50 * time.Microsecond,
	}
	w.Values["snet"] = n
	return n
}

func key(addr string) string {
	host, port, err := net.SplitHostPort(addr)
	if err != nil {
		return addr
	}
	switch host {
	case "", "localhost", "127.0.0.1", "0.0.0.0", "::1", "::":
		return ":" + port
	}
	return host + ":" + port
}

// DeclareNode says that every task whose id starts with taskPrefix, and every listener
// such a task opens, belongs to node.
func (n *Net) DeclareNode(node, taskPrefix string) {
	n.mu.Lock()
	n.nodePrefix[taskPrefix] = node
	n.mu.Unlock()
}

// PlaceAddr assigns a listen address to a node explicitly.
func (n *Net) PlaceAddr(addr, node string) {
	n.mu.Lock()
	n.addrNode[key(addr)] = node
	n.mu.Unlock()
}

func (n *Net) nodeOfTaskLocked(id string) string {
	best, bestLen := "", -1
	for p, nd := range n.nodePrefix {
		if (id == p || strings.HasPrefix(id, p+".")) && len(p) > bestLen {
			best, bestLen = nd, len(p)
		}
	}
	return best
}

// Isolate black-holes a node: bytes to and from it are held, dials to it hang until
// their timeout. Heal releases held bytes (in order) with fresh latency.
func (n *Net) Isolate(node string) {
	n.mu.Lock()
	n.isolated[node] = true
	n.mu.Unlock()
	n.w.Fault("partition")
	n.w.Event("net isolate %s", node)
}

func (n *Net) Heal(node string) {
	n.mu.Lock()
	delete(n.isolated, node)
	var wake []*half
	now := time.Now()
	for _, c := range n.conns {
		for _, h := range []*half{c.in, c.peer.in} {
			h.mu.Lock()
			// redeliver held chunks
			at := now
			for i := range h.q {
				if h.q[i].held {
					h.q[i].held = false
					at = at.Add(time.Microsecond)
					h.q[i].at = at
				}
			}
			wake = append(wake, h)
			h.mu.Unlock()
		}
	}
	n.mu.Unlock()
	for _, h := range wake {
		h.kick()
	}
	n.w.Fault("heal")
	n.w.Event("net heal %s", node)
}

func pairKey(a, b string) [2]string {
	if a > b {
		a, b = b, a
	}
	return [2]string{a, b}
}

// CutLink holds every byte travelling between nodes a and b (both directions) and lets
// dials between them hang, while both stay reachable for everybody else: a partial
// partition. HealLink releases what was held, in order.
func (n *Net) CutLink(a, b string) {
	n.mu.Lock()
	n.cut[pairKey(a, b)] = true
	n.mu.Unlock()
	n.w.Fault("link_cut")
	n.w.Event("net cut %s-%s", a, b)
}

func (n *Net) HealLink(a, b string) {
	n.mu.Lock()
	delete(n.cut, pairKey(a, b))
	n.mu.Unlock()
	n.Heal("")
}

func (n *Net) RefuseDials(addr string, on bool) {
	n.mu.Lock()
	n.refuse[key(addr)] = on
	n.mu.Unlock()
}

// ResetAll resets every open connection that touches node (both ends see a reset).
func (n *Net) ResetNode(node string) int {
	n.mu.Lock()
	var cs []*conn
	for _, c := range n.conns {
		if c.node == node || c.peer.node == node {
			cs = append(cs, c)
		}
	}
	n.mu.Unlock()
	k := 0
	for _, c := range cs {
		if c.reset() {
			k++
		}
	}
	return k
}

// ResetConn resets connection id (dial order).
func (n *Net) ResetConn(id int) bool {
	n.mu.Lock()
	if id < 0 || id >= len(n.conns) {
		n.mu.Unlock()
		return false
	}
	c := n.conns[id]
	n.mu.Unlock()
	return c.reset()
}

// DialsTo counts the connections ever opened to a listen address.
func (n *Net) DialsTo(address string) int {
	n.mu.Lock()
	defer n.mu.Unlock()
	k := 0
	for _, c := range n.conns {
		if key(c.remote.s) == key(address) {
			k++
		}
	}
	return k
}

// DialsFromTo counts the connections node `from` ever opened to a listen address.
func (n *Net) DialsFromTo(from, address string) int {
	n.mu.Lock()
	defer n.mu.Unlock()
	k := 0
	for _, c := range n.conns {
		if c.node == from && key(c.remote.s) == key(address) {
			k++
		}
	}
	return k
}

func (n *Net) NumConns() int {
	n.mu.Lock()
	defer n.mu.Unlock()
	return len(n.conns)
}

func (n *Net) stat(k string) {
	n.mu.Lock()
	n.Stats[k]++
	n.mu.Unlock()
}

// ---- addresses ----

type addr struct{ s string }

func (a addr) Network() string { return "tcp" }
func (a addr) String() string  { return a.s }

// ---- listener ----

type listener struct {
	n       *Net
	key     string
	addr    string
	node    string
	mu      sync.Mutex
	pending []*conn
	closed  bool
	waiter  *waiter
}

type waiter struct {
	t      *sim.Task
	active bool
}

func Listen(network, address string) (Listener, error) {
	w := sim.Current()
	if w == nil {
		return net.Listen(network, address)
	}
	n := Of(w)
	t := w.SelfTask()
	n.mu.Lock()
	defer n.mu.Unlock()
	k := key(address)
	if strings.HasSuffix(k, ":0") {
		n.nextPort++
		host, _, _ := net.SplitHostPort(address)
		if host == "" {
			host = "127.0.0.1"
		}
		address = host + ":" + strconv.Itoa(n.nextPort)
		k = key(address)
	}
	if l, ok := n.listeners[k]; ok && !l.closed {
		return nil, &net.OpError{Op: "listen", Net: network, Addr: addr{address}, Err: os.NewSyscallError("bind", syscall.EADDRINUSE)}
	}
	node := n.addrNode[k]
	if node == "" {
		node = n.nodeOfTaskLocked(t.ID)
	}
	l := &listener{n: n, key: k, addr: address, node: node}
	n.listeners[k] = l
	n.w.Event("net listen %s node=%s", k, node)
	return l, nil
}

func (l *listener) Accept() (Conn, error) {
	w := l.n.w
	sim.Yield()
	t := w.SelfTask()
	for {
		l.mu.Lock()
		if l.closed {
			l.mu.Unlock()
			return nil, &net.OpError{Op: "accept", Net: "tcp", Addr: addr{l.addr}, Err: net.ErrClosed}
		}
		if len(l.pending) > 0 {
			c := l.pending[0]
			l.pending = l.pending[1:]
			l.mu.Unlock()
			return c, nil
		}
		if t.Dying() {
			l.mu.Unlock()
			return nil, net.ErrClosed
		}
		wt := &waiter{t: t, active: true}
		l.waiter = wt
		l.mu.Unlock()
		w.Block(t)
		l.mu.Lock()
		wt.active = false
		if l.waiter == wt {
			l.waiter = nil
		}
		l.mu.Unlock()
	}
}

func (l *listener) kick() {
	l.mu.Lock()
	wt := l.waiter
	if wt != nil && wt.active {
		wt.active = false
		l.waiter = nil
		l.mu.Unlock()
		l.n.w.Wake(wt.t)
		return
	}
	l.mu.Unlock()
}

func (l *listener) Close() error {
	l.mu.Lock()
	if l.closed {
		l.mu.Unlock()
		return &net.OpError{Op: "close", Net: "tcp", Addr: addr{l.addr}, Err: net.ErrClosed}
	}
	l.closed = true
	pend := l.pending
	l.pending = nil
	l.mu.Unlock()
	for _, c := range pend {
		c.Close()
	}
	l.kick()
	return nil
}

func (l *listener) Addr() Addr { return addr{l.addr} }

// ---- dialing ----

type Dialer struct {
	Timeout time.Duration
}

func (d *Dialer) Dial(network, address string) (Conn, error) {
	if sim.Current() == nil {
		nd := net.Dialer{Timeout: d.Timeout}
		return nd.Dial(network, address)
	}
	return dial(network, address, d.Timeout)
}

func Dial(network, address string) (Conn, error) {
	if sim.Current() == nil {
		return net.Dial(network, address)
	}
	return dial(network, address, 0)
}

func DialTimeout(network, address string, timeout time.Duration) (Conn, error) {
	if sim.Current() == nil {
		return net.DialTimeout(network, address, timeout)
	}
	return dial(network, address, timeout)
}

func dial(network, address string, timeout time.Duration) (Conn, error) {
	w := sim.Current()
	n := Of(w)
	sim.Yield()
	t := w.SelfTask()
	k := key(address)
	n.mu.Lock()
	myNode := n.nodeOfTaskLocked(t.ID)
	l := n.listeners[k]
	targetNode := n.addrNode[k]
	if l != nil && targetNode == "" {
		targetNode = l.node
	}
	holed := (targetNode != "" && n.isolated[targetNode]) || (myNode != "" && n.isolated[myNode] && myNode != targetNode) || n.cut[pairKey(myNode, targetNode)]
	refused := n.refuse[k] || l == nil || l.closed
	n.mu.Unlock()
	if holed {
		n.stat("dial_blackholed")
		w.Fault("dial_timeout")
		if timeout <= 0 {
			timeout = 2 * time.Minute // kernel connect timeout stand-in
		}
		w.Sleep(timeout)
		return nil, &net.OpError{Op: "dial", Net: network, Addr: addr{address}, Err: os.ErrDeadlineExceeded}
	}
	if refused {
		n.stat("dial_refused")
		w.Event("net dial refused %s", k)
		w.Sleep(2*n.LatencyMin + time.Microsecond) // the RST takes a round trip
		return nil, &net.OpError{Op: "dial", Net: network, Addr: addr{address}, Err: os.NewSyscallError("connect", syscall.ECONNREFUSED)}
	}
	n.mu.Lock()
	id := len(n.conns)
	n.nextPort++
	local := "127.0.0.1:" + strconv.Itoa(n.nextPort)
	a := &conn{n: n, id: id, dialer: true, node: myNode, local: addr{local}, remote: addr{l.addr}}
	b := &conn{n: n, id: id, dialer: false, node: l.node, local: addr{l.addr}, remote: addr{local}}
	a.in = &half{n: n, key: "c" + strconv.Itoa(id) + "d"}
	b.in = &half{n: n, key: "c" + strconv.Itoa(id) + "a"}
	a.peer, b.peer = b, a
	n.conns = append(n.conns, a)
	n.mu.Unlock()
	n.stat("dial_ok")
	w.Event("net dial c%d %s->%s", id, myNode, l.node)
	l.mu.Lock()
	if l.closed {
		l.mu.Unlock()
		return nil, &net.OpError{Op: "dial", Net: network, Addr: addr{address}, Err: os.NewSyscallError("connect", syscall.ECONNREFUSED)}
	}
	l.pending = append(l.pending, b)
	l.mu.Unlock()
	l.kick()
	return a, nil
}

// ---- connections ----

type chunk struct {
	data []byte
	at   time.Time
	held bool
	eof  bool
}

// half is the receive side of one direction.
type half struct {
	n      *Net
	key    string
	mu     sync.Mutex
	q      []chunk
	lastAt time.Time
	waiter *waiter
	timer  *time.Timer
	rdl    time.Time // read deadline
	closed bool      // local end closed
	rst    bool
	bytes  int     // unread bytes queued
	wwait  *waiter // a writer blocked on a full buffer
}

func (h *half) kickWriter() {
	h.mu.Lock()
	wt := h.wwait
	if wt != nil && wt.active {
		wt.active = false
		h.wwait = nil
		h.mu.Unlock()
		h.n.w.Wake(wt.t)
		return
	}
	h.mu.Unlock()
}

func (h *half) kick() {
	h.mu.Lock()
	wt := h.waiter
	if wt != nil && wt.active {
		wt.active = false
		h.waiter = nil
		h.mu.Unlock()
		h.n.w.Wake(wt.t)
		return
	}
	h.mu.Unlock()
}

type conn struct {
	n      *Net
	id     int
	dialer bool
	node   string
	local  addr
	remote addr
	in     *half // what this end reads
	peer   *conn
	wmu    sync.Mutex
	wdl    time.Time
}

var errReset = os.NewSyscallError("read", syscall.ECONNRESET)

func (c *conn) Read(p []byte) (int, error) {
	w := c.n.w
	h := c.in
	sim.YieldAs(h.key)
	t := w.SelfTaskKey(h.key)
	for {
		h.mu.Lock()
		if h.closed {
			h.mu.Unlock()
			return 0, &net.OpError{Op: "read", Net: "tcp", Source: c.local, Addr: c.remote, Err: net.ErrClosed}
		}
		if h.rst {
			h.mu.Unlock()
			return 0, &net.OpError{Op: "read", Net: "tcp", Source: c.local, Addr: c.remote, Err: errReset}
		}
		now := time.Now()
		var wakeAt time.Time
		if len(h.q) > 0 && !h.q[0].held {
			ck := &h.q[0]
			if !ck.at.After(now) {
				if ck.eof {
					h.mu.Unlock()
					w.Event("net c%d read EOF (%s)", c.id, h.key)
					return 0, io.EOF
				}
				k := copy(p, ck.data)
				w.Note("net c%d %s read %d bytes", c.id, h.key, k)
				if k < len(ck.data) {
					ck.data = ck.data[k:]
				} else {
					h.q = h.q[1:]
				}
				h.bytes -= k
				h.mu.Unlock()
				h.kickWriter()
				return k, nil
			}
			wakeAt = ck.at
		}
		if !h.rdl.IsZero() {
			if !h.rdl.After(now) {
				h.mu.Unlock()
				c.n.stat("read_deadline")
				w.Event("net c%d read deadline (%s)", c.id, h.key)
				return 0, &net.OpError{Op: "read", Net: "tcp", Source: c.local, Addr: c.remote, Err: os.ErrDeadlineExceeded}
			}
			if wakeAt.IsZero() || h.rdl.Before(wakeAt) {
				wakeAt = h.rdl
			}
		}
		if t.Dying() {
			h.mu.Unlock()
			return 0, net.ErrClosed
		}
		wt := &waiter{t: t, active: true}
		h.waiter = wt
		var tm *time.Timer
		if !wakeAt.IsZero() {
			tm = time.AfterFunc(wakeAt.Sub(now), h.kick)
		}
		h.mu.Unlock()
		w.Block(t)
		if tm != nil {
			tm.Stop()
		}
		h.mu.Lock()
		wt.active = false
		if h.waiter == wt {
			h.waiter = nil
		}
		h.mu.Unlock()
	}
}

func (c *conn) Write(p []byte) (int, error) {
	w := c.n.w
	n := c.n
	dst := c.peer.in
	// local state
	c.in.mu.Lock()
	closed, rst := c.in.closed, c.in.rst
	c.in.mu.Unlock()
	if closed {
		return 0, &net.OpError{Op: "write", Net: "tcp", Source: c.local, Addr: c.remote, Err: net.ErrClosed}
	}
	if rst {
		return 0, &net.OpError{Op: "write", Net: "tcp", Source: c.local, Addr: c.remote, Err: os.NewSyscallError("write", syscall.ECONNRESET)}
	}
	dst.mu.Lock()
	peerClosed := dst.closed
	dst.mu.Unlock()
	if peerClosed {
		w.Event("net c%d write to closed peer", c.id)
		return 0, &net.OpError{Op: "write", Net: "tcp", Source: c.local, Addr: c.remote, Err: os.NewSyscallError("write", syscall.EPIPE)}
	}
	// bounded buffer: block (kernel-parked) while the peer has too much unread
	if n.BufBytes > 0 {
		t := w.SelfTask()
		for {
			dst.mu.Lock()
			full := dst.bytes > 0 && dst.bytes+len(p) > n.BufBytes
			dclosed := dst.closed || dst.rst
			if !full || dclosed || t.Dying() {
				dst.mu.Unlock()
				break
			}
			c.wmu.Lock()
			wdl := c.wdl
			c.wmu.Unlock()
			now := time.Now()
			if !wdl.IsZero() && !wdl.After(now) {
				dst.mu.Unlock()
				n.stat("write_deadline")
				w.Fault("write_timeout_full_buffer")
				w.Event("net c%d write deadline (buffer full)", c.id)
				return 0, &net.OpError{Op: "write", Net: "tcp", Source: c.local, Addr: c.remote, Err: os.ErrDeadlineExceeded}
			}
			wt := &waiter{t: t, active: true}
			dst.wwait = wt
			var tm *time.Timer
			if !wdl.IsZero() {
				tm = time.AfterFunc(wdl.Sub(now), dst.kickWriter)
			}
			dst.mu.Unlock()
			w.Probe("write_blocked_full_buffer")
			w.Block(t)
			if tm != nil {
				tm.Stop()
			}
			dst.mu.Lock()
			wt.active = false
			if dst.wwait == wt {
				dst.wwait = nil
			}
			dst.mu.Unlock()
		}
	}
	// latency decision
	var lat time.Duration
	if n.LatencyMax > 0 {
		v := w.TaskChoose(sim.KNet, 9, n.LatencyP0)
		if v > 0 {
			lat = n.LatencyMax >> uint(8-v)
		}
	}
	n.mu.Lock()
	held := (c.node != "" && n.isolated[c.node]) || (c.peer.node != "" && n.isolated[c.peer.node]) || n.cut[pairKey(c.node, c.peer.node)]
	if c.node == c.peer.node {
		held = false
	}
	on := n.OnChunk
	n.Stats["chunks"]++
	n.Stats["bytes"] += len(p)
	if held {
		n.Stats["chunks_held"]++
	}
	n.mu.Unlock()
	data := append([]byte(nil), p...)
	w.Note("net c%d write %d bytes dialer=%v lat=%v held=%v", c.id, len(p), c.dialer, lat, held)
	if on != nil {
		on(c.id, c.dialer, data)
	}
	now := time.Now()
	at := now.Add(lat + n.LatencyMin + time.Microsecond)
	dst.mu.Lock()
	if !at.After(dst.lastAt) {
		at = dst.lastAt.Add(time.Nanosecond)
	}
	dst.lastAt = at
	dst.q = append(dst.q, chunk{data: data, at: at, held: held})
	dst.bytes += len(data)
	dst.mu.Unlock()
	dst.kick()
	return len(p), nil
}

func (c *conn) Close() error {
	h := c.in
	h.mu.Lock()
	if h.closed {
		h.mu.Unlock()
		return &net.OpError{Op: "close", Net: "tcp", Source: c.local, Addr: c.remote, Err: net.ErrClosed}
	}
	h.closed = true
	h.q = nil
	h.bytes = 0
	h.mu.Unlock()
	c.n.w.Note("net c%d close by dialer=%v", c.id, c.dialer)
	h.kick()
	h.kickWriter()
	// FIN travels behind the data already written
	dst := c.peer.in
	n := c.n
	n.mu.Lock()
	held := (c.node != "" && n.isolated[c.node]) || (c.peer.node != "" && n.isolated[c.peer.node]) || n.cut[pairKey(c.node, c.peer.node)]
	if c.node == c.peer.node {
		held = false
	}
	n.mu.Unlock()
	at := time.Now().Add(n.LatencyMin + time.Microsecond)
	dst.mu.Lock()
	if !at.After(dst.lastAt) {
		at = dst.lastAt.Add(time.Nanosecond)
	}
	dst.lastAt = at
	dst.q = append(dst.q, chunk{eof: true, at: at, held: held})
	dst.mu.Unlock()
	dst.kick()
	return nil
}

func (c *conn) reset() bool {
	did := false
	for _, h := range []*half{c.in, c.peer.in} {
		h.mu.Lock()
		if !h.rst && !h.closed {
			h.rst = true
			h.q = nil
			h.bytes = 0
			did = true
		}
		h.mu.Unlock()
		h.kick()
		h.kickWriter()
	}
	if did {
		c.n.w.Fault("conn_reset")
		c.n.w.Event("net reset c%d", c.id)
	}
	return did
}

func (c *conn) LocalAddr() Addr  { return c.local }
func (c *conn) RemoteAddr() Addr { return c.remote }

func (c *conn) SetDeadline(t time.Time) error {
	c.SetReadDeadline(t)
	c.SetWriteDeadline(t)
	return nil
}

func (c *conn) SetReadDeadline(t time.Time) error {
	h := c.in
	h.mu.Lock()
	h.rdl = t
	closed := h.closed
	h.mu.Unlock()
	if closed {
		return &net.OpError{Op: "set", Net: "tcp", Source: c.local, Addr: c.remote, Err: net.ErrClosed}
	}
	h.kick()
	return nil
}

func (c *conn) SetWriteDeadline(t time.Time) error {
	c.wmu.Lock()
	c.wdl = t
	c.wmu.Unlock()
	c.in.mu.Lock()
	closed := c.in.closed
	c.in.mu.Unlock()
	if closed {
		return &net.OpError{Op: "set", Net: "tcp", Source: c.local, Addr: c.remote, Err: net.ErrClosed}
	}
	return nil
}

// ConnInfo describes connection id for monitors.
func (n *Net) ConnInfo(id int) (fromNode, toNode, toAddr string) {
	n.mu.Lock()
	defer n.mu.Unlock()
	c := n.conns[id]
	return c.node, c.peer.node, c.remote.s
}

var _ = errors.New
var _ = fmt.Sprint
