package sim

import (
	"math/rand/v2"
)

// Kind names the dimension a decision belongs to. Value 0 of every decision is the
// least eventful option (continue the running task, no stall, no fault, first case).
type Kind uint8

const (
	KCfg Kind = iota
	KOp
	KSched
	KStall
	KSel
	KKeys
	KRand
	KNet
	KFault
	KEither
	nKinds
)

var kindNames = [...]string{"cfg", "op", "sched", "stall", "sel", "keys", "rand", "net", "fault", "either"}

func (k Kind) String() string { return kindNames[k] }

func KindFromString(s string) Kind {
	for i, n := range kindNames {
		if n == s {
			return Kind(i)
		}
	}
	return KCfg
}

// Decision is one recorded non-zero choice. Decisions whose value is 0 are not stored:
// a replay file is the sparse list of positions at which something other than the
// default happened.
type Decision struct {
	Pos  int  `json:"p"`
	Kind Kind `json:"k"`
	N    int  `json:"n"`
	V    int  `json:"v"`
}

// Stream is the single source of every choice of a run. In generation mode values
// come from one PCG seeded with the run seed; in replay mode they come from the
// recorded sparse decision list (everything not listed is 0).
type Stream struct {
	rng      *rand.Rand
	replay   map[int]Decision
	isReplay bool
	lenient  bool // shrink mode: tolerate (kind,n) mismatches
	pos      int
	Log      []Decision
	Diverged bool
	DivergeAt int
	counts   [nKinds]int
	nonzero  [nKinds]int
}

func NewSeedStream(seed uint64) *Stream {
	return &Stream{rng: rand.New(rand.NewPCG(seed, seed^0x9e3779b97f4a7c15))}
}

func NewReplayStream(ds []Decision, lenient bool) *Stream {
	m := make(map[int]Decision, len(ds))
	for _, d := range ds {
		m[d.Pos] = d
	}
	return &Stream{replay: m, isReplay: true, lenient: lenient, DivergeAt: -1}
}

func (s *Stream) IsReplay() bool { return s.isReplay }
func (s *Stream) Pos() int       { return s.pos }

// choose draws a value in [0,n). p0 is the probability of the default 0 in
// generation mode (p0<0 means uniform).
func (s *Stream) choose(kind Kind, n int, p0 float64) int {
	if n <= 1 {
		return 0
	}
	pos := s.pos
	s.pos++
	s.counts[kind]++
	v := 0
	if s.isReplay {
		if d, ok := s.replay[pos]; ok {
			if d.Kind != kind || d.N != n {
				if !s.Diverged {
					s.Diverged = true
					s.DivergeAt = pos
				}
				if s.lenient {
					v = d.V % n
				}
			} else {
				v = d.V
			}
		}
	} else {
		if p0 < 0 {
			v = s.rng.IntN(n)
		} else if s.rng.Float64() < p0 {
			v = 0
		} else {
			v = 1 + s.rng.IntN(n-1)
		}
	}
	if v != 0 {
		s.nonzero[kind]++
		s.Log = append(s.Log, Decision{Pos: pos, Kind: kind, N: n, V: v})
	}
	return v
}

// Float is only available to generation-side policy code that must not be replayed
// (none at present); kept out of the public surface deliberately.

// SplitMix64 derives per-run seeds from (VERIF_SEED, property, run index).
func SplitMix64(x uint64) uint64 {
	x += 0x9e3779b97f4a7c15
	z := x
	z = (z ^ (z >> 30)) * 0xbf58476d1ce4e5b9
	z = (z ^ (z >> 27)) * 0x94d049bb133111eb
	return z ^ (z >> 31)
}

func RunSeed(base uint64, prop string, i uint64) uint64 {
	h := SplitMix64(base)
	for _, c := range []byte(prop) {
		h = SplitMix64(h ^ uint64(c))
	}
	return SplitMix64(h ^ (i * 0x2545F4914F6CDD1D))
}
