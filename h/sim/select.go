package sim

import (
	"reflect"
)

// Case is one arm of an instrumented select statement.
type Case interface {
	selectCase() reflect.SelectCase
	done(v reflect.Value, ok bool)
}

type RecvCase[T any] struct {
	ch  <-chan T
	Val T
	Ok  bool
}

func Recv[T any](ch <-chan T) *RecvCase[T] { return &RecvCase[T]{ch: ch} }

func (c *RecvCase[T]) selectCase() reflect.SelectCase {
	return reflect.SelectCase{Dir: reflect.SelectRecv, Chan: reflect.ValueOf(c.ch)}
}

func (c *RecvCase[T]) done(v reflect.Value, ok bool) {
	c.Ok = ok
	if ok {
		reflect.ValueOf(&c.Val).Elem().Set(v)
	}
}

type SendCase[T any] struct {
	ch chan<- T
	v  T
}

func Send[T any](ch chan<- T, v T) *SendCase[T] { return &SendCase[T]{ch: ch, v: v} }

func (c *SendCase[T]) selectCase() reflect.SelectCase {
	return reflect.SelectCase{Dir: reflect.SelectSend, Chan: reflect.ValueOf(c.ch), Send: reflect.ValueOf(&c.v).Elem()}
}

func (c *SendCase[T]) done(reflect.Value, bool) {}

// Select implements an instrumented select statement. It returns the index of the
// chosen case, or -1 for default. Which of several ready cases wins is a recorded
// decision; if none is ready and there is no default the task blocks natively
// (durably, under synctest) and yields after waking up.
func Select(hasDefault bool, cases ...Case) int {
	w := cur.Load()
	n := len(cases)
	scs := make([]reflect.SelectCase, n, n+1)
	for i, c := range cases {
		scs[i] = c.selectCase()
	}
	if w == nil {
		if hasDefault {
			scs = append(scs, reflect.SelectCase{Dir: reflect.SelectDefault})
		}
		i, v, ok := reflect.Select(scs)
		if i == n {
			return -1
		}
		cases[i].done(v, ok)
		return i
	}
	t := w.self("")
	w.yield(t)
	// poll in an order chosen by the stream (rotation)
	start := 0
	if n > 1 {
		w.mu.Lock()
		run := w.running == t
		w.mu.Unlock()
		if run {
			start = w.stream.choose(KSel, n, 0.7)
		}
	}
	for k := 0; k < n; k++ {
		i := (start + k) % n
		sc := scs[i]
		if !sc.Chan.IsValid() || sc.Chan.IsNil() {
			continue
		}
		if sc.Dir == reflect.SelectRecv {
			v, ok := sc.Chan.TryRecv()
			if ok || (!ok && v.IsValid()) {
				// ok==false && v valid zero => channel closed
				cases[i].done(v, ok)
				return i
			}
		} else {
			if sc.Chan.TrySend(sc.Send) {
				return i
			}
		}
	}
	if hasDefault {
		return -1
	}
	w.mu.Lock()
	if w.running == t {
		w.running = nil
	}
	w.mu.Unlock()
	i, v, ok := reflect.Select(scs)
	cases[i].done(v, ok)
	w.yield(t)
	return i
}
