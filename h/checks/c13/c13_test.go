// C13 — the CRDT resource delivers every committed update and loses none.
// 2-4 nodes each own the REAL NewCRDT resource (broadcaster, merger, net/rpc receiver)
// over the simulated network. Every update is a GCounter increment by a distinct power
// of two (unique per ATTEMPT), so a read value says exactly which updates it contains.
package c13

import (
	"fmt"
	"strings"
	"testing"
	"time"

	"github.com/DistCompiler/pgo/distsys"
	"github.com/DistCompiler/pgo/distsys/resources"
	"github.com/DistCompiler/pgo/distsys/tla"
	"github.com/DistCompiler/pgo/distsys/trace"

	"verif/harness"
	"verif/sim"
	"verif/sim/snet"
	"verif/ulib"
)

type upd struct {
	bit       int
	node      int
	doneAt    time.Duration // when the commit was observed
	state     int           // 0 in flight (body running), 1 body finished (committing), 2 committed, 3 aborted
	startedAt time.Duration
}

const (
	stInFlight = iota
	stCommitting
	stCommitted
	stAborted
)

type sec struct {
	write     bool
	hold      time.Duration // keep the section open after the write (ticks and merges land inside)
	failTimes int           // attempts that abort after the write
	giveUp    bool          // after the failed attempts the retry takes a branch without the write (either/or)
	pause     time.Duration // sleep before the section (outside any section)
}

type sys struct {
	w            *sim.World
	n            int
	interval     time.Duration
	sendTO       time.Duration
	progs        [][]sec
	upds         []*upd
	seen         []int32 // per node: union of bits seen in committed reads so far
	lastRead     []int32
	done         []bool
	listenAt     []time.Duration // when each node's resource started listening (-1 = not yet)
	stop         bool
	desc         string
	lastCommitAt time.Duration
	isolated     []bool // nodes that become connected-but-silent (half-open partition) at isoAt, for good
	isoAt        time.Duration
}

func (s *sys) committedMask() int32 {
	var m int32
	for _, u := range s.upds {
		if u.state == stCommitted {
			m |= 1 << u.bit
		}
	}
	return m
}

func (s *sys) checkRead(node int, v int32, when string) {
	w := s.w
	for _, u := range s.upds {
		if v&(1<<u.bit) == 0 {
			continue
		}
		switch u.state {
		case stAborted:
			w.Fail("aborted_update_visible", "%s: node %d reads %b which contains update bit %d of node %d's ABORTED attempt | %s", when, node, v, u.bit, u.node, s.desc)
		case stInFlight:
			if u.node != node {
				w.Fail("inflight_update_visible", "%s: node %d reads %b which contains update bit %d of a section still in flight at node %d | %s", when, node, v, u.bit, u.node, s.desc)
			}
		}
	}
	// state received from peers (and own committed state) is never lost
	lost := s.seen[node] &^ v
	// bits of own in-flight attempts that were seen by own reads inside the section are not "seen" (we only record committed reads)
	if lost != 0 {
		w.Fail("received_state_lost", "%s: node %d reads %b but had already read %b in a committed section: bits %b disappeared | %s", when, node, v, s.seen[node], lost, s.desc)
	}
}

func (s *sys) generate() {
	w := s.w
	s.n = 2 + w.Choose(sim.KCfg, 3)
	s.interval = []time.Duration{5 * time.Millisecond, 50 * time.Millisecond}[w.Choose(sim.KCfg, 2)]
	s.sendTO = []time.Duration{100 * time.Millisecond, 2 * time.Second}[w.Choose(sim.KCfg, 2)]
	var sb strings.Builder
	fmt.Fprintf(&sb, "nodes=%d interval=%v sendTimeout=%v ", s.n, s.interval, s.sendTO)
	budget := 24
	for i := 0; i < s.n; i++ {
		k := 1 + w.Choose(sim.KOp, 4)
		var prog []sec
		fmt.Fprintf(&sb, "| N%d:", i)
		for j := 0; j < k; j++ {
			x := sec{write: w.Choose(sim.KOp, 4) != 0}
			x.pause = time.Duration(w.Choose(sim.KOp, 4)) * s.interval / 2
			if x.write {
				x.hold = time.Duration(w.Choose(sim.KOp, 4)) * s.interval
				if w.Choose(sim.KFault, 3) == 1 {
					x.failTimes = 1 + w.Choose(sim.KFault, 2)
					x.giveUp = w.Choose(sim.KFault, 3) == 1
				}
				if budget < 1+x.failTimes {
					x.write = false
				} else {
					budget -= 1 + x.failTimes
				}
			}
			prog = append(prog, x)
			if x.write {
				fmt.Fprintf(&sb, "{pause %v; write; hold %v; abort x%d giveup=%v}", x.pause, x.hold, x.failTimes, x.giveUp)
			} else {
				fmt.Fprintf(&sb, "{pause %v; read}", x.pause)
			}
		}
		s.progs = append(s.progs, prog)
	}
	s.isolated = make([]bool, s.n)
	if s.n == 4 && w.Choose(sim.KFault, 3) == 1 {
		// two of the four replicas go silent (their connections stay open, nothing arrives any
		// more): the other two are still connected peers of each other and must keep
		// exchanging every committed update
		a := w.Choose(sim.KFault, 4)
		b := (a + 1 + w.Choose(sim.KFault, 3)) % 4
		s.isolated[a], s.isolated[b] = true, true
		s.isoAt = time.Duration(w.Choose(sim.KFault, 6)) * s.interval
		fmt.Fprintf(&sb, "| nodes %d and %d silent from %v on ", a, b, s.isoAt)
	}
	s.desc = sb.String()
	s.seen = make([]int32, s.n)
	s.lastRead = make([]int32, s.n)
	s.done = make([]bool, s.n)
	s.listenAt = make([]time.Duration, s.n)
	for i := range s.listenAt {
		s.listenAt[i] = -1
	}
}

// required is what node i must read eventually: its own committed updates and every
// update committed while node i was already reachable (the property speaks of peers
// reachable from the time of the update; the body of the update started after the peer
// was listening, so every broadcast of it could reach the peer).
func (s *sys) required(i int) int32 {
	var m int32
	for _, u := range s.upds {
		if u.state != stCommitted {
			continue
		}
		if u.node == i || (!s.isolated[i] && !s.isolated[u.node] && s.listenAt[i] >= 0 && u.startedAt > s.listenAt[i]) {
			m |= 1 << u.bit
		}
	}
	return m
}

func addr(i int) string { return fmt.Sprintf("crdt%d:7000", i) }

func (s *sys) runNode(i int) {
	w := s.w
	prog := s.progs[i]
	attempts := make([]int, len(prog))
	var cur *upd
	var pendingRead int32 = -1
	rec := &ulib.Recorder{OnEvent: func(ev trace.Event) {
		if cur != nil {
			if ev.IsAbort {
				cur.state = stAborted
				w.Probe("write_section_aborted")
			} else {
				cur.state = stCommitted
				cur.doneAt = w.Now()
				s.lastCommitAt = w.Now()
			}
			cur = nil
		}
		if !ev.IsAbort && pendingRead >= 0 {
			s.seen[i] |= pendingRead
			s.lastRead[i] = pendingRead
		}
		pendingRead = -1
	}}
	mkBody := func(j int) func(distsys.ArchetypeInterface) error {
		return func(iface distsys.ArchetypeInterface) error {
			x := prog[j]
			c, err := iface.RequireArchetypeResourceRef("A.c")
			if err != nil {
				return err
			}
			pendingRead = -1
			if x.write && x.giveUp && attempts[j] >= x.failTimes {
				// the retry takes the other branch of the either: no write this time
				x.write = false
				w.Probe("write_abandoned_after_abort")
			}
			if x.write {
				u := &upd{bit: len(s.upds), node: i, startedAt: w.Now()}
				s.upds = append(s.upds, u)
				cur = u
				if err := iface.Write(c, nil, tla.MakeNumber(1<<u.bit)); err != nil {
					return err
				}
				if x.hold > 0 {
					w.Sleep(x.hold)
					w.Probe("section_held_open_after_write")
				}
				// read own value inside the section: must contain own update
				v, err := iface.Read(c, nil)
				if err != nil {
					return err
				}
				if v.AsNumber()&(1<<u.bit) == 0 {
					w.Fail("own_write_invisible", "node %d does not read its own write (bit %d) inside the section: %b | %s", i, u.bit, v.AsNumber(), s.desc)
				}
				s.checkRead(i, v.AsNumber()&^(1<<u.bit), fmt.Sprintf("inside node %d's writing section", i))
				if attempts[j] < x.failTimes {
					attempts[j]++
					w.Fault("await_false_after_write")
					return distsys.ErrCriticalSectionAborted
				}
				u.state = stCommitting
			} else {
				v, err := iface.Read(c, nil)
				if err != nil {
					return err
				}
				s.checkRead(i, v.AsNumber(), fmt.Sprintf("read section of node %d", i))
				pendingRead = v.AsNumber()
			}
			next := "A.wait"
			if j+1 < len(prog) {
				next = fmt.Sprintf("A.p%d", j+1)
			}
			return iface.Goto(next)
		}
	}
	// pause labels sleep OUTSIDE any CRDT section, then jump to the section
	var secs []distsys.MPCalCriticalSection
	for j := range prog {
		j := j
		secs = append(secs, distsys.MPCalCriticalSection{Name: fmt.Sprintf("A.p%d", j), Body: func(iface distsys.ArchetypeInterface) error {
			if prog[j].pause > 0 {
				w.Sleep(prog[j].pause)
			}
			return iface.Goto(fmt.Sprintf("A.s%d", j))
		}})
		secs = append(secs, distsys.MPCalCriticalSection{Name: fmt.Sprintf("A.s%d", j), Body: mkBody(j)})
	}
	// after the program: keep reading until the harness says stop
	secs = append(secs, distsys.MPCalCriticalSection{Name: "A.wait", Body: func(iface distsys.ArchetypeInterface) error {
		s.done[i] = true
		if s.stop {
			return iface.Goto("A.Done")
		}
		c, err := iface.RequireArchetypeResourceRef("A.c")
		if err != nil {
			return err
		}
		w.Sleep(s.interval)
		v, err := iface.Read(c, nil)
		if err != nil {
			return err
		}
		s.checkRead(i, v.AsNumber(), fmt.Sprintf("final read loop of node %d", i))
		pendingRead = v.AsNumber()
		return iface.Goto("A.wait")
	}})
	secs = append(secs, distsys.MPCalCriticalSection{Name: "A.Done", Body: func(distsys.ArchetypeInterface) error { return distsys.ErrDone }})
	arch := distsys.MPCalArchetype{Name: "A", Label: "A.p0", RequiredRefParams: []string{"A.c"},
		JumpTable: distsys.MakeMPCalJumpTable(secs...), ProcTable: distsys.MakeMPCalProcTable(), PreAmble: func(distsys.ArchetypeInterface) {}}
	var tk *sim.Task
	tk = w.Go(fmt.Sprintf("N%d", i), func() {
		snet.Of(w).DeclareNode(fmt.Sprintf("n%d", i), tk.ID)
		if d := w.Choose(sim.KCfg, 3); d > 0 {
			w.Sleep(time.Duration(d) * s.interval) // peers come up late
		}
		var peers []tla.Value
		for p := 0; p < s.n; p++ {
			if p != i {
				peers = append(peers, tla.MakeNumber(int32(p)))
			}
		}
		res := resources.NewCRDT(tla.MakeNumber(int32(i)), peers, func(id tla.Value) string { return addr(int(id.AsNumber())) },
			resources.GCounter{},
			resources.WithCRDTBroadcastInterval(s.interval), resources.WithCRDTSendTimeout(s.sendTO), resources.WithCRDTDialTimeout(s.sendTO))
		s.listenAt[i] = w.Now()
		ctx := distsys.NewMPCalContext(tla.MakeNumber(int32(i)), arch,
			distsys.EnsureArchetypeRefParam("c", res), distsys.SetTraceRecorder(rec))
		if err := ctx.Run(); err != nil {
			w.Fail("run_error", "node %d: Run returned %v | %s", i, err, s.desc)
		}
	})
}

func scenario(w *sim.World) {
	s := &sys{w: w}
	s.generate()
	// R8 knob: in a third of the runs the merge queue of every replica holds 1 or 2 states
	// instead of 100, so "the queue is full" happens with a handful of peers
	if w.Choose(sim.KCfg, 3) == 1 {
		capac := 1 + w.Choose(sim.KCfg, 2)
		w.KnobFn = func(name string, def int) int {
			if strings.HasPrefix(name, "crdt.go#") {
				return capac
			}
			return def
		}
		s.desc += fmt.Sprintf(" | merge queue capacity %d", capac)
		w.Probe("small_merge_queue")
	}
	w.Event("cfg %s", s.desc)
	anyIso := false
	for i := 0; i < s.n; i++ {
		snet.Of(w).PlaceAddr(addr(i), fmt.Sprintf("n%d", i))
		anyIso = anyIso || s.isolated[i]
	}
	for i := 0; i < s.n; i++ {
		s.runNode(i)
	}
	if anyIso {
		w.Go("silence", func() {
			w.Sleep(s.isoAt + time.Microsecond)
			for i := 0; i < s.n; i++ {
				if s.isolated[i] {
					snet.Of(w).Isolate(fmt.Sprintf("n%d", i))
				}
			}
			w.Probe("two_peers_silent")
		})
	}
	allDone := func() bool {
		for _, d := range s.done {
			if !d {
				return false
			}
		}
		return true
	}
	if !w.Await(allDone, 10*time.Minute) {
		w.Fail("no_progress", "programs did not finish within 10 simulated minutes | %s", s.desc)
	}
	// bounded convergence: all peers are up, updates have stopped
	want := s.committedMask()
	converged := func() bool {
		for i := 0; i < s.n; i++ {
			if s.required(i)&^s.lastRead[i] != 0 || s.lastRead[i]&^want != 0 {
				return false
			}
		}
		return true
	}
	bound := 20*s.interval + 2*s.sendTO + time.Second
	if anyIso {
		bound += 8 * s.sendTO // every broadcast round waits out the silent peers' time-outs
	}
	ok := w.Await(converged, bound)
	if w.Failed() {
		return
	}
	if !ok {
		var sb strings.Builder
		for i := 0; i < s.n; i++ {
			fmt.Fprintf(&sb, "node %d reads %b; ", i, s.lastRead[i])
		}
		missing := false
		for i := 0; i < s.n; i++ {
			if s.required(i)&^s.lastRead[i] != 0 {
				missing = true
			}
			fmt.Fprintf(&sb, "node %d must have %b; ", i, s.required(i))
		}
		rule := "replicas_do_not_converge"
		if missing {
			rule = "committed_update_not_delivered"
		}
		w.Fail(rule, "%v after updates stopped (all peers connected): committed updates %b, %s| %s", bound, want, sb.String(), s.desc)
	}
	s.stop = true
	w.Count("updates_committed", popcount(want))
	w.Count("updates_total", len(s.upds))
	// let the archetypes reach Done and close
	w.Sleep(3 * s.interval)
}

func popcount(x int32) int {
	n := 0
	for ; x != 0; x &= x - 1 {
		n++
	}
	return n
}

func configure(seed uint64, tier string) sim.RunConfig {
	x := sim.SplitMix64(seed ^ 0xc13)
	cfg := sim.RunConfig{
		MaxSteps:    1_500_000,
		MaxSim:      time.Hour,
		PreemptProb: []float64{0.05, 0.2, 0.4}[x%3],
		StepCost:    []time.Duration{2 * time.Microsecond, 20 * time.Microsecond}[(x>>4)%2],
	}
	if (x>>8)%3 == 0 {
		cfg.StallProb = 0.01
		cfg.StallMax = 100 * time.Millisecond
	}
	return cfg
}

func TestWorker(t *testing.T) {
	harness.Worker(t, harness.Spec{
		Property:  "C13",
		Configure: configure,
		Scenario:  scenario,
		NonTrivial: func(r *sim.Result) bool {
			return r.Counts["updates_committed"] > 0 && r.Preemptions > 0
		},
		Describe: func(r *sim.Result) any {
			return map[string]any{"events": r.Events[:min(len(r.Events), 2)], "probes": r.Probes, "faults": r.Faults, "updates_committed": r.Counts["updates_committed"], "updates_total": r.Counts["updates_total"]}
		},
	})
}
