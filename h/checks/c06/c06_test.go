// C06 — mailboxes and channels are reliable FIFO exactly-once transactional links.
// 1-4 sender archetypes and 1-3 receiver archetypes on separate simulated nodes use the
// REAL TCP mailboxes or relaxed mailboxes (plus NewMailboxesLength) over the simulated
// network. Every message is unique per ATTEMPT, so a message of a failed attempt can
// never be mistaken for its retry. Oracles run over the recorded history.
package c06

import (
	"fmt"
	"strings"
	"testing"
	"time"

	"github.com/DistCompiler/pgo/distsys"
	"github.com/DistCompiler/pgo/distsys/resources"
	"github.com/DistCompiler/pgo/distsys/tla"
	"github.com/DistCompiler/pgo/distsys/trace"

	"verif/harness"
	"verif/sim"
	"verif/sim/snet"
	"verif/ulib"
)

type sendOp struct{ dest int }

type sSection struct {
	sends     []sendOp
	failAfter int // -1 none: body fails after that many sends
	failTimes int
}

type rSection struct {
	recvs     int
	lenReads  []int // positions (before recv k) at which the length is read
	failAfter int
	failTimes int
}

type batch struct {
	sender, dest int
	msgs         []string
}

type sys struct {
	w        *sim.World
	relaxed  bool
	nS, nR   int
	sprog    [][]sSection
	rprog    [][]rSection
	addr     []string // receiver addresses
	opts     []resources.MailboxesOption
	uniq     int
	// history
	committedSent [][]string        // per (sender*nR+dest): messages of committed sections in order
	batches       []batch           // committed batches in commit order (per sender order)
	bodyDone      []int             // per dest: messages of sender attempts whose body finished (upper bound for length)
	aborted       map[string]bool   // messages written by failed attempts
	got           [][]string        // per receiver: messages obtained by committed sections, in order
	finished      int
	sendersDone   int
	desc          string
}

func (s *sys) msg(sender, sec, attempt, k int) tla.Value {
	s.uniq++
	return tla.MakeTuple(tla.MakeNumber(int32(sender)), tla.MakeNumber(int32(sec)), tla.MakeNumber(int32(attempt)), tla.MakeNumber(int32(k)), tla.MakeNumber(int32(s.uniq)))
}

func senderOf(m string) int {
	var a, b, c, d, e int
	fmt.Sscanf(m, "<<%d, %d, %d, %d, %d>>", &a, &b, &c, &d, &e)
	return a
}

func (s *sys) generate() {
	w := s.w
	s.relaxed = w.Choose(sim.KCfg, 2) == 1
	s.nS = 1 + w.Choose(sim.KCfg, 4)
	s.nR = 1 + w.Choose(sim.KCfg, 3)
	incoming := make([]int, s.nR)
	var sb strings.Builder
	for i := 0; i < s.nS; i++ {
		n := 1 + w.Choose(sim.KOp, 5)
		var prog []sSection
		for j := 0; j < n; j++ {
			sec := sSection{failAfter: -1}
			k := 1 + w.Choose(sim.KOp, 3)
			if s.relaxed {
				k = 1 // contract of the relaxed mailboxes: one send, last fallible operation
			}
			for x := 0; x < k; x++ {
				d := w.Choose(sim.KOp, s.nR)
				sec.sends = append(sec.sends, sendOp{dest: d})
				incoming[d]++
			}
			if w.Choose(sim.KFault, 3) == 1 {
				if s.relaxed {
					sec.failAfter = 0 // only before the send
				} else {
					sec.failAfter = w.Choose(sim.KFault, k+1)
				}
				sec.failTimes = 1 + w.Choose(sim.KFault, 2)
			}
			prog = append(prog, sec)
		}
		s.sprog = append(s.sprog, prog)
		fmt.Fprintf(&sb, "S%d:", i)
		for _, sec := range prog {
			sb.WriteString("{")
			for _, o := range sec.sends {
				fmt.Fprintf(&sb, "->R%d ", o.dest)
			}
			if sec.failAfter >= 0 {
				fmt.Fprintf(&sb, "fail@%dx%d", sec.failAfter, sec.failTimes)
			}
			sb.WriteString("}")
		}
		sb.WriteString(" ")
	}
	for r := 0; r < s.nR; r++ {
		// receivers cycle through 1-5 section shapes until they have obtained every
		// committed message destined to them
		var prog []rSection
		nshapes := 1 + w.Choose(sim.KOp, 5)
		for q := 0; q < nshapes; q++ {
			k := 1 + w.Choose(sim.KOp, 3)
			sec := rSection{recvs: k, failAfter: -1}
			if w.Choose(sim.KOp, 2) == 1 {
				sec.lenReads = append(sec.lenReads, w.Choose(sim.KOp, k+1))
			}
			if w.Choose(sim.KFault, 3) == 1 {
				sec.failAfter = w.Choose(sim.KFault, k+1)
				sec.failTimes = 1 + w.Choose(sim.KFault, 2)
			}
			prog = append(prog, sec)
		}
		_ = incoming
		s.rprog = append(s.rprog, prog)
		fmt.Fprintf(&sb, "R%d:", r)
		for _, sec := range prog {
			fmt.Fprintf(&sb, "{recv x%d", sec.recvs)
			if len(sec.lenReads) > 0 {
				sb.WriteString(" len")
			}
			if sec.failAfter >= 0 {
				fmt.Fprintf(&sb, " fail@%dx%d", sec.failAfter, sec.failTimes)
			}
			sb.WriteString("}")
		}
		sb.WriteString(" ")
	}
	kind := "tcp"
	if s.relaxed {
		kind = "relaxed"
	}
	// calm runs: time-outs far above latency and stalls, so no commit-phase time-out and
	// no reconnect can happen and every oracle is strict; harsh runs: anything
	harsh := w.Config().StallMax > 100*time.Millisecond || w.Config().StallProb == 0 && w.Choose(sim.KCfg, 2) == 1
	var tos []time.Duration
	n := snet.Of(w)
	if harsh {
		tos = []time.Duration{2 * time.Millisecond, 20 * time.Millisecond, 200 * time.Millisecond}
		n.LatencyMax = []time.Duration{0, time.Millisecond, 20 * time.Millisecond}[w.Choose(sim.KCfg, 3)]
		w.Probe("harsh_config")
	} else {
		tos = []time.Duration{time.Second, 3 * time.Second}
		n.LatencyMax = []time.Duration{0, time.Millisecond}[w.Choose(sim.KCfg, 2)]
		w.Probe("calm_config")
	}
	rcs := 1 + w.Choose(sim.KCfg, 5)
	if w.Choose(sim.KCfg, 3) == 0 {
		rcs = 100
	}
	rt, wt, dt := tos[w.Choose(sim.KCfg, len(tos))], tos[w.Choose(sim.KCfg, len(tos))], tos[w.Choose(sim.KCfg, len(tos))]
	if !harsh {
		rt = []time.Duration{5 * time.Millisecond, 50 * time.Millisecond, time.Second}[w.Choose(sim.KCfg, 3)] // read time-outs only abort the reader
	}
	s.opts = []resources.MailboxesOption{
		resources.WithMailboxesReceiveChanSize(rcs),
		resources.WithMailboxesReadTimeout(rt),
		resources.WithMailboxesWriteTimeout(wt),
		resources.WithMailboxesDialTimeout(dt),
	}
	n.BufBytes = []int{0, 200, 2000}[w.Choose(sim.KCfg, 3)]
	s.desc = fmt.Sprintf("%s rcs=%d read=%v write=%v dial=%v lat<=%v buf=%d | %s", kind, rcs, rt, wt, dt, n.LatencyMax, n.BufBytes, sb.String())
	s.committedSent = make([][]string, s.nS*s.nR)
	s.bodyDone = make([]int, s.nR)
	s.got = make([][]string, s.nR)
	s.aborted = map[string]bool{}
	for r := 0; r < s.nR; r++ {
		s.addr = append(s.addr, fmt.Sprintf("recv%d:9000", r))
	}
}

func (s *sys) mailboxes(self int, isReceiver bool) *resources.Mailboxes {
	fn := func(idx tla.Value) (resources.MailboxKind, string) {
		r := int(idx.AsNumber())
		if isReceiver && r == self {
			return resources.MailboxesLocal, s.addr[r]
		}
		return resources.MailboxesRemote, s.addr[r]
	}
	if s.relaxed {
		return resources.NewRelaxedMailboxes(fn, s.opts...)
	}
	return resources.NewTCPMailboxes(fn, s.opts...)
}

func (s *sys) runSender(i int) {
	w := s.w
	prog := s.sprog[i]
	attempts := make([]int, len(prog))
	cur := 0
	var pendingMsgs []struct {
		dest int
		m    string
	}
	rec := &ulib.Recorder{OnEvent: func(ev trace.Event) {
		if len(pendingMsgs) == 0 && !ev.IsAbort {
			return
		}
		if ev.IsAbort {
			for _, pm := range pendingMsgs {
				s.aborted[pm.m] = true
			}
			w.Probe("sender_attempt_aborted")
			if len(pendingMsgs) > 0 {
				w.Probe("abort_after_send")
			}
		} else {
			per := map[int][]string{}
			for _, pm := range pendingMsgs {
				s.committedSent[i*s.nR+pm.dest] = append(s.committedSent[i*s.nR+pm.dest], pm.m)
				per[pm.dest] = append(per[pm.dest], pm.m)
			}
			for d, ms := range per {
				s.batches = append(s.batches, batch{sender: i, dest: d, msgs: ms})
			}
		}
		pendingMsgs = nil
	}}
	mkBody := func(j int) func(distsys.ArchetypeInterface) error {
		return func(iface distsys.ArchetypeInterface) error {
			sec := prog[j]
			cur = j
			net, err := iface.RequireArchetypeResourceRef("S.net")
			if err != nil {
				return err
			}
			failNow := sec.failAfter >= 0 && attempts[j] < sec.failTimes
			pendingMsgs = nil
			for k, o := range sec.sends {
				if failNow && k == sec.failAfter {
					attempts[j]++
					w.Fault("await_false")
					return distsys.ErrCriticalSectionAborted
				}
				m := s.msg(i, j, attempts[j]*10+len(pendingMsgs), k)
				if err := iface.Write(net, []tla.Value{tla.MakeNumber(int32(o.dest))}, m); err != nil {
					if err == distsys.ErrCriticalSectionAborted {
						w.Probe("send_refused_or_timed_out")
					}
					return err
				}
				pendingMsgs = append(pendingMsgs, struct {
					dest int
					m    string
				}{o.dest, ulib.Canon(m)})
			}
			if failNow && sec.failAfter == len(sec.sends) {
				attempts[j]++
				w.Fault("await_false")
				return distsys.ErrCriticalSectionAborted
			}
			for _, pm := range pendingMsgs {
				s.bodyDone[pm.dest]++
			}
			next := "S.Done"
			if j+1 < len(prog) {
				next = fmt.Sprintf("S.s%d", j+1)
			}
			return iface.Goto(next)
		}
	}
	var secs []distsys.MPCalCriticalSection
	for j := range prog {
		secs = append(secs, distsys.MPCalCriticalSection{Name: fmt.Sprintf("S.s%d", j), Body: mkBody(j)})
	}
	secs = append(secs, distsys.MPCalCriticalSection{Name: "S.Done", Body: func(distsys.ArchetypeInterface) error { return distsys.ErrDone }})
	arch := distsys.MPCalArchetype{Name: "S", Label: "S.s0", RequiredRefParams: []string{"S.net"},
		JumpTable: distsys.MakeMPCalJumpTable(secs...), ProcTable: distsys.MakeMPCalProcTable(), PreAmble: func(distsys.ArchetypeInterface) {}}
	_ = cur
	var tk *sim.Task
	tk = w.Go(fmt.Sprintf("S%d", i), func() {
		snet.Of(w).DeclareNode(fmt.Sprintf("S%d", i), tk.ID)
		if d := w.Choose(sim.KCfg, 3); d > 0 {
			w.Sleep(time.Duration(d) * 30 * time.Millisecond)
		}
		ctx := distsys.NewMPCalContext(tla.MakeNumber(int32(100+i)), arch,
			distsys.EnsureArchetypeRefParam("net", s.mailboxes(-1, false)), distsys.SetTraceRecorder(rec))
		err := ctx.Run()
		if err != nil {
			w.Fail("sender_error", "sender %d: Run returned %v | %s", i, err, s.desc)
		}
		s.sendersDone++
		s.finished++
	})
}

func (s *sys) pendingUpper(r int) int {
	// messages of sender attempts whose body finished, minus DISTINCT messages obtained
	// (a duplicate delivery must not shrink the bound)
	seen := map[string]bool{}
	for _, m := range s.got[r] {
		seen[m] = true
	}
	return s.bodyDone[r] - len(seen)
}

// allObtained: every message committed to receiver r has been obtained at least once.
func (s *sys) allObtained(r int) bool {
	seen := map[string]bool{}
	for _, m := range s.got[r] {
		seen[m] = true
	}
	for i := 0; i < s.nS; i++ {
		for _, m := range s.committedSent[i*s.nR+r] {
			if !seen[m] {
				return false
			}
		}
	}
	return true
}

func (s *sys) runReceiver(r int) {
	w := s.w
	prog := s.rprog[r]
	attempts := 0 // failed-by-plan attempts of the current visit
	var inAttempt []string
	var lastAborted []string // what the previous (failed) attempt of this section had read
	rec := &ulib.Recorder{OnEvent: func(ev trace.Event) {
		if ev.IsAbort {
			if len(inAttempt) > 0 {
				w.Probe("abort_after_receive")
				lastAborted = inAttempt
			}
		} else {
			s.got[r] = append(s.got[r], inAttempt...)
			lastAborted = nil
			attempts = 0
		}
		inAttempt = nil
	}}
	mkBody := func(j int) func(distsys.ArchetypeInterface) error {
		return func(iface distsys.ArchetypeInterface) error {
			sec := prog[j]
			inAttempt = nil
			if s.sendersDone == s.nS && s.allObtained(r) {
				return iface.Goto("R.Done")
			}
			net, err := iface.RequireArchetypeResourceRef("R.net")
			if err != nil {
				return err
			}
			ln, err := iface.RequireArchetypeResourceRef("R.len")
			if err != nil {
				return err
			}
			failNow := sec.failAfter >= 0 && attempts < sec.failTimes
			self := []tla.Value{tla.MakeNumber(int32(r))}
			for k := 0; k <= sec.recvs; k++ {
				for _, p := range sec.lenReads {
					if p == k {
						lv, err := iface.Read(ln, self)
						if err != nil {
							return err
						}
						up := s.pendingUpper(r) - len(inAttempt)
						if int(lv.AsNumber()) > up && !s.reconnected(r) {
							w.Fail("length_exceeds_pending", "receiver %d: reported length %d, but only %d messages of finished sender sections are not yet obtained | %s", r, lv.AsNumber(), up, s.desc)
						}
						w.Count("length_reads", 1)
					}
				}
				if failNow && k == sec.failAfter {
					attempts++
					w.Fault("await_false")
					return distsys.ErrCriticalSectionAborted
				}
				if k == sec.recvs {
					break
				}
				v, err := iface.Read(net, self)
				if err != nil {
					if err == distsys.ErrCriticalSectionAborted {
						w.Probe("read_timeout")
						if len(inAttempt) > 0 && s.sendersDone == s.nS {
							// nothing more will come: commit what this attempt has read so far
							// instead of retrying forever (a shorter section of the same label)
							break
						}
					}
					return err
				}
				m := ulib.Canon(v)
				if s.aborted[m] {
					w.Fail("aborted_message_delivered", "receiver %d obtained %s, which was written by a sender attempt that failed | %s", r, m, s.desc)
				}
				// redelivery: what an aborted attempt had read comes back first, same order
				if len(inAttempt) < len(lastAborted) && lastAborted[len(inAttempt)] != m {
					w.Fail("redelivery_order", "receiver %d: the failed attempt had read %v, the retry reads %s at position %d | %s", r, lastAborted, m, len(inAttempt), s.desc)
				}
				inAttempt = append(inAttempt, m)
			}
			return iface.Goto(fmt.Sprintf("R.s%d", (j+1)%len(prog)))
		}
	}
	var secs []distsys.MPCalCriticalSection
	for j := range prog {
		secs = append(secs, distsys.MPCalCriticalSection{Name: fmt.Sprintf("R.s%d", j), Body: mkBody(j)})
	}
	secs = append(secs, distsys.MPCalCriticalSection{Name: "R.Done", Body: func(distsys.ArchetypeInterface) error { return distsys.ErrDone }})
	arch := distsys.MPCalArchetype{Name: "R", Label: "R.s0", RequiredRefParams: []string{"R.net", "R.len"},
		JumpTable: distsys.MakeMPCalJumpTable(secs...), ProcTable: distsys.MakeMPCalProcTable(), PreAmble: func(distsys.ArchetypeInterface) {}}
	w.Go(fmt.Sprintf("R%d", r), func() {
		if d := w.Choose(sim.KCfg, 3); d > 0 {
			w.Sleep(time.Duration(d) * 40 * time.Millisecond) // listener comes up late
		}
		mb := s.mailboxes(r, true)
		// realise the local mailbox now so that the listener exists
		if _, err := mb.Index(distsys.ArchetypeInterface{}, tla.MakeNumber(int32(r))); err != nil {
			w.Infra("cannot realise mailbox: %v", err)
		}
		ctx := distsys.NewMPCalContext(tla.MakeNumber(int32(r)), arch,
			distsys.EnsureArchetypeRefParam("net", mb),
			distsys.EnsureArchetypeRefParam("len", resources.NewMailboxesLength(mb)),
			distsys.SetTraceRecorder(rec))
		err := ctx.Run()
		if err != nil {
			w.Fail("receiver_error", "receiver %d: Run returned %v | %s", r, err, s.desc)
		}
		s.finished++
	})
}

// reconnected: some sender opened more than one connection to receiver r (a time-out
// made it continue on a new connection): the known findings' precondition.
func (s *sys) reconnected(r int) bool {
	n := snet.Of(s.w)
	for i := 0; i < s.nS; i++ {
		if n.DialsFromTo(fmt.Sprintf("S%d", i), s.addr[r]) > 1 {
			return true
		}
	}
	return false
}

// checkHistory evaluates the ordering/exactly-once oracles; final=true also requires
// that everything committed has been obtained.
func (s *sys) checkHistory(final bool) {
	w := s.w
	n := snet.Of(w)
	for r := 0; r < s.nR; r++ {
		per := make([][]string, s.nS)
		for _, m := range s.got[r] {
			i := senderOf(m)
			per[i] = append(per[i], m)
		}
		anyDup := false
		for i := 0; i < s.nS; i++ {
			sent := s.committedSent[i*s.nR+r]
			gotI := per[i]
			conns := n.DialsFromTo(fmt.Sprintf("S%d", i), s.addr[r])
			ctxt := fmt.Sprintf("receiver %d obtained from sender %d: %v ; that sender's committed sections sent it: %v (connections sender->receiver: %d) | %s", r, i, gotI, sent, conns, s.desc)
			idx := map[string]int{}
			for k, x := range sent {
				idx[x] = k
			}
			seen := map[string]bool{}
			var dedup []string
			for _, x := range gotI {
				if _, ok := idx[x]; !ok {
					w.Fail("invented_or_uncommitted_message", "%s", ctxt)
				}
				if seen[x] {
					anyDup = true
					if conns > 1 {
						w.Fail("duplicate_after_reconnect", "%s", ctxt)
					}
					w.Fail("duplicate_delivery", "%s", ctxt)
				}
				seen[x] = true
				dedup = append(dedup, x)
			}
			for k := 1; k < len(dedup); k++ {
				if idx[dedup[k]] < idx[dedup[k-1]] {
					if conns > 1 {
						w.Fail("mailbox_reorder_across_connections", "%s", ctxt)
					}
					w.Fail("fifo_violation", "%s", ctxt)
				}
			}
			// no gaps: what was obtained is a prefix of what was sent
			for k := range dedup {
				if idx[dedup[k]] != k {
					w.Fail("message_skipped", "%s", ctxt)
				}
			}
			if final && len(dedup) != len(sent) {
				w.Fail("message_lost", "%s", ctxt)
			}
		}
		if !s.relaxed && !anyDup && !s.reconnected(r) {
			// batches of one sending section arrive contiguously
			pos := map[string]int{}
			for k, m := range s.got[r] {
				pos[m] = k
			}
			for _, b := range s.batches {
				if b.dest != r || len(b.msgs) < 2 {
					continue
				}
				p0, ok := pos[b.msgs[0]]
				if !ok {
					continue
				}
				for k, m := range b.msgs {
					if p, ok := pos[m]; ok && p != p0+k {
						w.Fail("batch_not_contiguous", "receiver %d: messages %v of one sending section are not contiguous in the obtained stream %v | %s", r, b.msgs, s.got[r], s.desc)
					}
				}
				w.Probe("multi_message_batch_checked")
			}
		}
	}
}

func scenario(w *sim.World) {
	s := &sys{w: w}
	s.generate()
	w.Event("cfg %s", s.desc)
	for r := 0; r < s.nR; r++ {
		s.runReceiver(r)
	}
	for i := 0; i < s.nS; i++ {
		s.runSender(i)
	}
	w.OnStep(func() {})
	total := s.nS + s.nR
	// bounded liveness: largest timeout 2 s, latency <= 0.5 s, at most ~40 messages
	ok := w.Await(func() bool { return s.finished == total }, 30*time.Minute)
	if w.Failed() {
		return
	}
	s.checkHistory(ok)
	if !ok {
		w.Fail("no_progress", "after 30 simulated minutes only %d of %d archetypes finished (received so far %v) | %s", s.finished, total, s.got, s.desc)
	}
	if s.relaxed {
		w.Probe("kind_relaxed")
	} else {
		w.Probe("kind_tcp")
	}
	if s.nS >= 2 {
		w.Probe("two_or_more_senders")
	}
	n := 0
	for _, g := range s.got {
		n += len(g)
	}
	w.Count("messages_delivered", n)
}

func configure(seed uint64, tier string) sim.RunConfig {
	x := sim.SplitMix64(seed ^ 0xc06)
	cfg := sim.RunConfig{
		MaxSteps:    600_000,
		MaxSim:      3 * time.Hour,
		PreemptProb: []float64{0.02, 0.1, 0.3}[x%3],
		StepCost:    []time.Duration{2 * time.Microsecond, 20 * time.Microsecond, 200 * time.Microsecond}[(x>>4)%3],
	}
	switch (x >> 8) % 3 {
	case 0: // calm: short stalls only
		cfg.StallProb = 0.01
		cfg.StallMax = 20 * time.Millisecond
	case 1: // harsh: long stalls
		cfg.StallProb = []float64{0.005, 0.02}[(x>>12)%2]
		cfg.StallMax = []time.Duration{300 * time.Millisecond, 2 * time.Second}[(x>>16)%2]
	}
	return cfg
}

func TestWorker(t *testing.T) {
	harness.Worker(t, harness.Spec{
		Property:  "C06",
		Configure: configure,
		Scenario:  scenario,
		NonTrivial: func(r *sim.Result) bool {
			return r.Counts["messages_delivered"] > 0 && (r.Probes["sender_attempt_aborted"] > 0 || r.Probes["abort_after_receive"] > 0 || r.Probes["read_timeout"] > 0 || r.Preemptions > 0)
		},
		Describe: func(r *sim.Result) any {
			return map[string]any{"events": r.Events[:min(len(r.Events), 2)], "probes": r.Probes, "faults": r.Faults, "messages_delivered": r.Counts["messages_delivered"]}
		},
	})
}
