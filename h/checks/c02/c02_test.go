// C02 — generated Go takes exactly the steps its MPCal/PlusCal spec prescribes.
// The real generated archetypes of each shipped spec/Go pair run in the level-A spec
// world under seeded schedules and choices; after every committed step the full spec
// state is recorded, and TLC evaluates the specification's own Init and Next (read from
// /repo at check time) on the recorded states.
package c02

import (
	"fmt"
	"os"
	"os/exec"
	"path/filepath"
	"strings"
	"testing"

	"github.com/DistCompiler/pgo/distsys/tla"

	"verif/env"
	"verif/envsys"
	"verif/harness"
	"verif/raftrun"
	"verif/sim"
	"verif/tlc"
)

var repoRoot = func() string {
	if r := os.Getenv("VERIF_REPO"); r != "" {
		return r
	}
	return "/repo"
}()

// what the scenario hands to the batch oracle
var last struct {
	sys   tlc.System
	key   string // system + constants: traces with equal key share one TLC run
	trace tlc.Trace
	valid bool
	// the run ended with an assertion failure reported by the generated Go: the action and
	// the process it belongs to; the last state of the trace is the state it failed in
	assertAction, assertSelf, assertWhat string
}

type stepper interface {
	State() tlc.State
}

// aux is a process of the spec that is not an archetype (no generated code): the harness
// transcribes it; its steps are validated by TLC like any other.
type aux struct {
	Enabled func() bool
	Step    func() string
}

// actionOf gives the name of the TLA+ action of a label ("AServer.handleMsg" -> "handleMsg").
func actionOf(pc string) string {
	if i := strings.LastIndex(pc, "."); i >= 0 {
		return pc[i+1:]
	}
	return pc
}

func runSystem(w *sim.World, wd *env.World, sys tlc.System, key string, st stepper, settle func(bool), maxSteps int, auxs ...aux) {
	failedAction, failedSelf, failedWhat := "", "", ""
	tr := tlc.Trace{}
	tr.States = append(tr.States, st.State())
	tr.Steps = append(tr.Steps, "initial")
	wd.AfterStep = func(a *env.Actor, label string, committed bool) {
		if settle != nil {
			settle(committed)
		}
		if committed {
			tr.States = append(tr.States, st.State())
			tr.Steps = append(tr.Steps, a.Name+" "+label)
		}
	}
	wd.Start()
	// the initial state must be recorded after the preambles ran (actors parked)
	tr.States[0] = st.State()
	for steps := 0; steps < maxSteps; steps++ {
		en := wd.Enabled()
		var ax []aux
		for _, x := range auxs {
			if x.Enabled() {
				ax = append(ax, x)
			}
		}
		if len(en)+len(ax) == 0 {
			break
		}
		pick := w.Choose(sim.KSched, len(en)+len(ax))
		if pick >= len(en) {
			what := ax[pick-len(en)].Step()
			tr.States = append(tr.States, st.State())
			tr.Steps = append(tr.Steps, what)
			continue
		}
		a := en[pick]
		wd.Step(a)
		if w.Failed() {
			return
		}
		if a.Done() && a.Panic != nil {
			w.Fail("go_panic_"+sys.Name, "%s panicked at %s: %v | state %s", a.Name, a.PC, a.Panic, wd.Render())
		}
		if a.Done() && a.Err != nil {
			if !env.IsAssertion(a.Err) {
				w.Fail("go_error_"+sys.Name, "%s ended with %v at %s | state %s", a.Name, a.Err, a.PC, wd.Render())
			}
			// an assertion of the spec failed in Go: the specification must fail there too (TLC
			// evaluates the action in the recorded state, in the batch oracle)
			failedAction, failedSelf = actionOf(a.PC), tlc.Render(a.Self)
			failedWhat = fmt.Sprintf("%s ended with %v at %s", a.Name, a.Err, a.PC)
			w.Probe("go_assertion_failure_judged_by_tlc")
			break
		}
	}
	w.Count("spec_steps_"+sys.Name, len(tr.States)-1)
	w.Count("spec_steps", len(tr.States)-1)
	w.Probe("system_" + sys.Name)
	last.sys, last.key, last.trace, last.valid = sys, key, tr, true
	last.assertAction, last.assertSelf, last.assertWhat = failedAction, failedSelf, failedWhat
	wd.StopAll()
}

// quick tier: constants are drawn from a small set per system so that the runs of one
// batch share TLC starts (one start per system and constant assignment); the thorough
// tier draws from the full ranges. The tier is recorded in every replay file.
func quick() bool { return os.Getenv("VERIF_TIER") != "thorough" }

// pick draws from 0..n-1; in the quick tier only from the listed values.
func pick(w *sim.World, n int, quickVals ...int) int {
	if quick() && len(quickVals) > 0 {
		return quickVals[w.Choose(sim.KCfg, len(quickVals))]
	}
	return w.Choose(sim.KCfg, n)
}

func scenario(w *sim.World) {
	last.valid = false
	wd := env.NewWorld(w)
	if w.Choose(sim.KCfg, 2) == 1 {
		// injected refusals: an environment resource aborts an attempt at a drawn operation (no step in the spec)
		wd.FaultBudget = 1 + w.Choose(sim.KCfg, 6)
		w.Probe("env_refusals_enabled")
	}
	switch w.Choose(sim.KCfg, 9) {
	case 8:
		n, rounds := 1+pick(w, 3, 1), 1+pick(w, 2, 0, 1)
		sc := envsys.NewShopCart(wd, n, rounds)
		w.Event("system shopcart nodes=%d rounds=%d", n, rounds)
		runSystem(w, wd, sc.TLCSystem(repoRoot), fmt.Sprintf("shopcart/%d/%d", n, rounds), sc, nil, 30+20*n*n*rounds, aux{sc.MergeEnabled, func() string { return sc.MergeStep(w) }})
	case 7:
		n := 1 + pick(w, 3, 1, 2)
		g := envsys.NewGCounter(wd, n)
		w.Event("system gcounter nodes=%d", n)
		runSystem(w, wd, g.TLCSystem(repoRoot), fmt.Sprintf("gcounter/%d", n), g, nil, 30+10*n*n, aux{g.MergeEnabled, func() string { return g.MergeStep(w) }})
	case 6:
		n := 1 + pick(w, 4, 1, 2)
		sc := envsys.NewShCounter(wd, n)
		w.Event("system shcounter nodes=%d", n)
		runSystem(w, wd, sc.TLCSystem(repoRoot), fmt.Sprintf("shcounter/%d", n), sc, nil, 20+10*n)
	case 5:
		ns, nc, explore := 1+pick(w, 2, 1), 1+pick(w, 2, 0, 1), pick(w, 3, 1) != 0
		p := envsys.NewProxy(wd, ns, nc, explore, false) // PracticalFD, as the shipped spec instantiates
		w.Event("system proxy servers=%d clients=%d explore=%v", ns, nc, explore)
		runSystem(w, wd, p.TLCSystem(repoRoot), fmt.Sprintf("proxy/%d/%d/%v", ns, nc, explore), p, nil, 60+w.Choose(sim.KCfg, 120))
	case 4:
		ns, nc, buf := 1+pick(w, 3, 0, 2), 1+pick(w, 2, 1), 1+pick(w, 2, 0, 1) // quick: servers != clients, so a confusion of the two constants shows
		l := envsys.NewLoadBalancer(wd, ns, nc, buf, false)
		w.Event("system loadbalancer servers=%d clients=%d buffer=%d", ns, nc, buf)
		runSystem(w, wd, l.TLCSystem(repoRoot), fmt.Sprintf("load_balancer/%d/%d/%d", ns, nc, buf), l, nil, 40+w.Choose(sim.KCfg, 100))
	case 3:
		nc, buf := 1+pick(w, 3, 1), 1+pick(w, 3, 0, 1)
		d := envsys.NewDQueue(wd, nc, buf, false)
		w.Event("system dqueue consumers=%d buffer=%d", nc, buf)
		runSystem(w, wd, d.TLCSystem(repoRoot), fmt.Sprintf("dqueue/%d/%d", nc, buf), d, nil, 40+w.Choose(sim.KCfg, 100))
	case 2:
		runPBKVS(w, wd)
	case 1:
		// raftkvs: the bag network of the spec (any delivery order) in half of the runs
		out := raftrun.Run(w, raftrun.Options{RecordTrace: true, NoFinalReads: true, MaxSteps: 200 + 150*w.Choose(sim.KCfg, 4), BagNetwork: w.Choose(sim.KCfg, 2) == 1, Small: true, Quick: quick()})
		sys := out.R.TLCSystem(repoRoot)
		w.Count("spec_steps_raftkvs", len(out.Trace.States)-1)
		w.Count("spec_steps", len(out.Trace.States)-1)
		w.Probe("system_raftkvs")
		last.assertAction, last.assertSelf, last.assertWhat = "", "", ""
		for _, f := range out.Failures {
			if strings.HasPrefix(f, "archetype_failed|") {
				a := out.FailedActor
				if a == nil || a.Panic != nil || !env.IsAssertion(a.Err) {
					w.Fail("go_failure_raftkvs", "%s", f)
				} else {
					last.assertAction, last.assertSelf, last.assertWhat = actionOf(a.PC), tlc.Render(a.Self), f
					w.Probe("go_assertion_failure_judged_by_tlc")
				}
			}
		}
		last.sys, last.key, last.trace, last.valid = sys, fmt.Sprintf("raftkvs/%v", sys.Consts), out.Trace, true
	default:
		n := 1 + pick(w, 4, 1, 2)
		s := envsys.NewLockSvc(wd, n, false)
		w.Event("system locksvc clients=%d", n)
		runSystem(w, wd, s.TLCSystem(repoRoot), fmt.Sprintf("locksvc/%d", n), s, s.Settle, 40*(n+1)+100)
	}
}

// batch groups collected traces by (system, constants) and asks TLC once per group.
type batch struct {
	groups map[string]*group
}

type group struct {
	sys     tlc.System
	idxs    []uint64
	traces  []tlc.Trace
	asserts map[uint64][3]string // run index -> action, self, description of the Go failure
}

func (b *batch) Collect(idx uint64, res *sim.Result) {
	if !last.valid {
		return
	}
	if b.groups == nil {
		b.groups = map[string]*group{}
	}
	g := b.groups[last.key]
	if g == nil {
		g = &group{sys: last.sys}
		b.groups[last.key] = g
	}
	g.idxs = append(g.idxs, idx)
	g.traces = append(g.traces, last.trace)
	if last.assertAction != "" {
		if g.asserts == nil {
			g.asserts = map[uint64][3]string{}
		}
		g.asserts[idx] = [3]string{last.assertAction, last.assertSelf, last.assertWhat}
	}
	last.valid = false
}

func (b *batch) Flush() (map[uint64]harness.BatchVerdict, error) {
	out := map[uint64]harness.BatchVerdict{}
	for key, g := range b.groups {
		dir, err := os.MkdirTemp("", "vtlc-")
		if err != nil {
			return nil, err
		}
		rest := g
		// a verdict names one trace; re-check the others until TLC is silent
		for len(rest.traces) > 0 {
			v, outp, err := tlc.Check(rest.sys, rest.traces, filepath.Join(dir, "w"))
			if os.Getenv("VERIF_KEEP_TLC") != "" {
				exec.Command("cp", "-r", filepath.Join(dir, "w"), os.Getenv("VERIF_KEEP_TLC")).Run()
			}
			os.RemoveAll(filepath.Join(dir, "w"))
			if err != nil {
				os.RemoveAll(dir)
				return nil, fmt.Errorf("%s: %v\n%s", key, err, tail(outp, 40))
			}
			if v == nil {
				break
			}
			tr := rest.traces[v.TraceIdx]
			what := "the initial state does not satisfy Init"
			rule := "init_mismatch_" + rest.sys.Name
			if v.Step > 0 {
				what = fmt.Sprintf("step %d (%s) is not a step of the specification's Next", v.Step, tr.Steps[v.Step])
				rule = "step_not_in_spec_" + rest.sys.Name
			}
			if v.EvalError {
				what = fmt.Sprintf("step %d (%s): the specification's Next cannot be evaluated on this pair of states (TLC: %s)", v.Step, tr.Steps[v.Step], firstError(v.Output))
				rule = "step_not_evaluable_" + rest.sys.Name
			}
			pre := ""
			if v.Step > 0 {
				pre = renderState(rest.sys, tr.States[v.Step-1])
			}
			out[rest.idxs[v.TraceIdx]] = harness.BatchVerdict{Rule: rule, Detail: fmt.Sprintf("%s (%s): %s\n  before: %s\n  after:  %s", rest.sys.Name, key, what, pre, renderState(rest.sys, tr.States[v.Step]))}
			rest = &group{sys: rest.sys, idxs: append(append([]uint64{}, rest.idxs[:v.TraceIdx]...), rest.idxs[v.TraceIdx+1:]...),
				traces: append(append([]tlc.Trace{}, rest.traces[:v.TraceIdx]...), rest.traces[v.TraceIdx+1:]...)}
		}
		// runs that ended with an assertion failure in Go: the specification's action must fail
		// its assertion in the state the run had reached (and the trace up to there was valid)
		for k, idx := range g.idxs {
			as, ok := g.asserts[idx]
			if !ok {
				continue
			}
			if _, bad := out[idx]; bad {
				continue
			}
			tr := g.traces[k]
			fails, _, err := tlc.AssertionFails(g.sys, tr, as[0], as[1], filepath.Join(dir, "a"))
			if os.Getenv("VERIF_KEEP_TLC") != "" {
				exec.Command("cp", "-r", filepath.Join(dir, "a"), os.Getenv("VERIF_KEEP_TLC")).Run()
			}
			os.RemoveAll(filepath.Join(dir, "a"))
			if err != nil {
				// TLC could not evaluate the recorded state at all (e.g. a mailbox holding two
				// responses whose "value" fields have different types, which TLC refuses to compare):
				// the Go failure is not judged, neither way
				fmt.Fprintf(os.Stderr, "C02: assertion failure of %s not judged, TLC could not evaluate the state: %v\n", key, err)
				continue
			}
			if !fails {
				out[idx] = harness.BatchVerdict{Rule: "go_assertion_" + g.sys.Name, Detail: fmt.Sprintf("%s (%s): %s; the specification's action %s(%s) does not fail an assertion in that state\n  state: %s", g.sys.Name, key, as[2], as[0], as[1], renderState(g.sys, tr.States[len(tr.States)-1]))}
			}
		}
		os.RemoveAll(dir)
	}
	b.groups = nil
	return out, nil
}

func renderState(sys tlc.System, st tlc.State) string {
	var sb strings.Builder
	for _, v := range sys.Vars {
		fmt.Fprintf(&sb, "%s=%s ", v, st[v])
	}
	return sb.String()
}

func firstError(o string) string {
	for _, l := range strings.Split(o, "\n") {
		if strings.HasPrefix(l, "Error:") && !strings.Contains(l, "The error occurred") {
			return strings.TrimSpace(l)
		}
	}
	i := strings.Index(o, "Error:")
	if i >= 0 {
		e := o[i:]
		if len(e) > 300 {
			e = e[:300]
		}
		return strings.ReplaceAll(e, "\n", " ")
	}
	return "evaluation error"
}

func tail(s string, n int) string {
	l := strings.Split(s, "\n")
	if len(l) > n {
		l = l[len(l)-n:]
	}
	return strings.Join(l, "\n")
}

func TestWorker(t *testing.T) {
	bs := 16
	if os.Getenv("VERIF_TIER") == "thorough" {
		bs = 100
	}
	harness.Worker(t, harness.Spec{
		Property: "C02",
		Configure: func(seed uint64, tier string) sim.RunConfig {
			return sim.RunConfig{MaxSteps: 1_000_000, StepCost: 1000}
		},
		Scenario:  scenario,
		Batch:     &batch{},
		BatchSize: bs,
		NonTrivial: func(r *sim.Result) bool {
			return r.Counts["spec_steps"] >= 3
		},
		Describe: func(r *sim.Result) any {
			return map[string]any{"events": r.Events[:min(len(r.Events), 2)], "probes": r.Probes, "spec_steps": r.Counts["spec_steps"]}
		},
	})
}

func runPBKVS(w *sim.World, wd *env.World) {
	S := tla.MakeString
	mk := func(typ int32, kv ...string) tla.Value {
		var fs []tla.RecordField
		for i := 0; i < len(kv); i += 2 {
			fs = append(fs, tla.RecordField{Key: S(kv[i]), Value: S(kv[i+1])})
		}
		return tla.MakeRecord([]tla.RecordField{{Key: S("typ"), Value: tla.MakeNumber(typ)}, {Key: S("body"), Value: tla.MakeRecord(fs)}})
	}
	// the spec's own initial clientInput (Init is checked too)
	input := []tla.Value{mk(3, "key", "KEY1", "value", "VALUE1"), mk(3, "key", "KEY1", "value", "VALUE2"), mk(1, "key", "KEY1")}
	nr := 1 + pick(w, 3, 1, 2)
	nc := 1 + pick(w, 2, 0)
	explore := pick(w, 2, 1) == 1
	p := envsys.NewPBKVS(wd, nr, nc, explore, input)
	w.Event("system pbkvs replicas=%d clients=%d explore=%v", nr, nc, explore)
	runSystem(w, wd, p.TLCSystem(repoRoot), fmt.Sprintf("pbkvs/%d/%d/%v", nr, nc, explore), p, nil, 150+100*nr*nc)
}
