package c09

// Level B: the shipped bootstrap of systems/raftkvs (bootstrap.NewServer / NewClient, the
// real relaxed mailboxes, failure detectors and monitors over the simulated network, the
// real election timer, CustomInChan, LocalShared variables) runs under the simulator's
// scheduler and clock. Clients issue Puts with unique values and Gets through the real
// bootstrap.Client.Run (request time-outs included); a server may be cut off from the
// network for a window and a minority may be stopped. The clients' history is checked for
// linearizability like the level-A one, and every request must be answered within a bound
// after the last fault ended.

import (
	"fmt"
	"io"
	"log"
	"strings"
	"time"

	"github.com/DistCompiler/pgo/systems/raftkvs/bootstrap"
	"github.com/dgraph-io/badger/v3"
	"github.com/DistCompiler/pgo/systems/raftkvs/configs"

	"verif/raftrun"
	"verif/sim"
	"verif/sim/snet"
)

// retryCounter watches the bootstrap client's own log line for a time-out it delivered to
// the client archetype (which then re-sends the request): the only place a re-send is
// visible without touching the code under test.
type retryCounter struct {
	onTimeout func(client int)
}

func (r *retryCounter) Write(p []byte) (int, error) {
	s := string(p)
	if i := strings.Index(s, "client "); i >= 0 && strings.Contains(s, " sent timeout") {
		var id int
		if _, err := fmt.Sscanf(s[i:], "client %d sent timeout", &id); err == nil {
			r.onTimeout(id)
		}
	}
	return len(p), nil
}

func levelB(w *sim.World) {
	n := []int{1, 3, 3, 3, 5}[w.Choose(sim.KCfg, 5)]
	nc := 1 + w.Choose(sim.KCfg, 3)
	nOps := 1 + w.Choose(sim.KCfg, 4)
	keys := []string{"k1", "k2"}[:1+w.Choose(sim.KCfg, 2)]
	cfg := configs.Root{
		NumServers: n, NumClients: nc,
		ClientRequestTimeout: []time.Duration{500 * time.Millisecond, 1500 * time.Millisecond}[w.Choose(sim.KCfg, 2)],
		FD:                   configs.FD{PullInterval: 300 * time.Millisecond, Timeout: 150 * time.Millisecond},
		Mailboxes:            configs.Mailboxes{ReceiveChanSize: 10000, DialTimeout: 100 * time.Millisecond, ReadTimeout: 100 * time.Millisecond, WriteTimeout: 100 * time.Millisecond},
		LeaderElection:       configs.LeaderElection{Timeout: 150 * time.Millisecond, TimeoutOffset: 150 * time.Millisecond},
		AppendEntriesSendInterval: []time.Duration{5 * time.Millisecond, 20 * time.Millisecond}[w.Choose(sim.KCfg, 2)],
		SharedResourceTimeout:     3 * time.Millisecond,
		InputChanReadTimeout:      5 * time.Millisecond,
		Servers:                   map[int]configs.Server{},
		Clients:                   map[int]configs.Client{},
	}
	for i := 1; i <= n; i++ {
		cfg.Servers[i] = configs.Server{MailboxAddr: fmt.Sprintf("srv%d:8000", i), MonitorAddr: fmt.Sprintf("srv%d:9000", i)}
	}
	for k := 1; k <= nc; k++ {
		cfg.Clients[k] = configs.Client{MailboxAddr: fmt.Sprintf("cl%d:8000", k)}
	}
	// faults: one server cut off for a window, and/or a minority stopped
	type cut struct {
		srv      int
		at, dur  time.Duration
	}
	var cuts []cut
	stopSrv, stopAt := 0, time.Duration(0)
	rolling := n >= 3 && w.Choose(sim.KFault, 3) == 0
	if rolling {
		// every server is cut off once, one after the other (whoever leads is deposed at some
		// point), each window longer than an election
		at := 200 * time.Millisecond
		for i := 1; i <= n; i++ {
			d := time.Duration(500+w.Choose(sim.KFault, 6)*100) * time.Millisecond
			cuts = append(cuts, cut{i, at, d})
			at += d + 200*time.Millisecond
		}
		w.Probe("level_b_rolling_cuts")
	} else if n >= 3 {
		for k := w.Choose(sim.KFault, 3); k > 0; k-- {
			cuts = append(cuts, cut{1 + w.Choose(sim.KFault, n), time.Duration(100+w.Choose(sim.KFault, 30)*100) * time.Millisecond, time.Duration(200+w.Choose(sim.KFault, 15)*100) * time.Millisecond})
		}
		if w.Choose(sim.KFault, 3) == 0 {
			stopSrv, stopAt = 1+w.Choose(sim.KFault, n), time.Duration(100+w.Choose(sim.KFault, 30)*100)*time.Millisecond
		}
	}
	// a third of the runs persist currentTerm, votedFor and the log (PersistentLog,
	// MakePersistent) in an in-memory badger store per server
	cfg.Persist = w.Choose(sim.KCfg, 3) == 0
	if cfg.Persist {
		w.Probe("level_b_persist")
	}
	plannedEnd := stopAt
	for _, c := range cuts {
		if c.at+c.dur > plannedEnd {
			plannedEnd = c.at + c.dur
		}
	}
	// paced workload (half of the runs): pauses between a client's operations spread them over
	// the fault windows; afterwards every client reads every key once more (final reads)
	paced := w.Choose(sim.KCfg, 2) == 1
	dbs := make([]*badger.DB, n+1)
	lastDesc = fmt.Sprintf("level B (bootstrap over simulated network): persist=%v servers=%d clients=%d ops/client=%d keys=%v clientTimeout=%v appendEntries=%v cuts=%v stop=%d@%v", cfg.Persist, n, nc, nOps, keys, cfg.ClientRequestTimeout, cfg.AppendEntriesSendInterval, cuts, stopSrv, stopAt)
	w.Event("cfg %s", lastDesc)
	w.Probe("level_b")
	net := snet.Of(w)
	bootstrap.ResetClientFailureDetector()

	var hist []*raftrun.Op
	cur := make([]*raftrun.Op, nc+1)
	log.SetOutput(&retryCounter{onTimeout: func(client int) {
		if client >= 1 && client <= nc && cur[client] != nil {
			cur[client].Sends++
			w.Probe("client_timeout_resend")
		}
	}})
	defer log.SetOutput(io.Discard)

	servers := make([]*bootstrap.Server, n+1)
	srvDone := 0
	for i := 1; i <= n; i++ {
		i := i
		node := fmt.Sprintf("s%d", i)
		net.PlaceAddr(cfg.Servers[i].MailboxAddr, node)
		net.PlaceAddr(cfg.Servers[i].MonitorAddr, node)
		var tk *sim.Task
		tk = w.Go(fmt.Sprintf("S%d", i), func() {
			net.DeclareNode(node, tk.ID)
			if cfg.Persist {
				db, err := badger.Open(badger.DefaultOptions("").WithInMemory(true).WithLogger(nil).WithNumCompactors(0).WithNumGoroutines(1))
				if err != nil {
					w.Infra("cannot open in-memory badger: %v", err)
					return
				}
				dbs[i] = db
			}
			servers[i] = bootstrap.NewServer(i, cfg, dbs[i])
			if err := servers[i].Run(); err != nil {
				w.Fail("archetype_failed", "server %d: Run returned %v | %s", i, err, lastDesc)
			}
			srvDone++
		})
	}
	uniq := 0
	clientsDone := 0
	clients := make([]*bootstrap.Client, nc+1)
	for k := 1; k <= nc; k++ {
		k := k
		reqCh := make(chan bootstrap.Request)
		respCh := make(chan bootstrap.Response)
		w.Go(fmt.Sprintf("C%d", k), func() {
			clients[k] = bootstrap.NewClient(k, cfg)
			w.Go(fmt.Sprintf("CR%d", k), func() {
				if err := clients[k].Run(reqCh, respCh); err != nil {
					w.Fail("archetype_failed", "client %d: Run returned %v | %s", k, err, lastDesc)
				}
			})
			total := nOps
			if paced {
				total = nOps + len(keys)
			}
			for j := 0; j < total; j++ {
				key := keys[w.Choose(sim.KOp, len(keys))]
				finalRead := j >= nOps
				if finalRead {
					key = keys[j-nOps]
					if j == nOps && w.Now() < plannedEnd+500*time.Millisecond {
						w.Sleep(plannedEnd + 500*time.Millisecond - w.Now())
					}
					w.Probe("level_b_final_read")
				} else if paced && j > 0 {
					w.Sleep(time.Duration(w.Choose(sim.KOp, 5)) * 150 * time.Millisecond)
				}
				op := &raftrun.Op{Client: k, Key: key, Sends: 1}
				var req bootstrap.Request
				if !finalRead && w.Choose(sim.KOp, 2) == 0 {
					op.Put, op.Value = true, fmt.Sprintf("v%d", uniq)
					uniq++
					req = bootstrap.PutRequest{Key: key, Value: op.Value}
				} else {
					req = bootstrap.GetRequest{Key: key}
				}
				op.Call = int64(w.Seq())
				hist = append(hist, op)
				cur[k] = op
				sim.Select(false, sim.Send(reqCh, req))
				rc := sim.Recv(respCh)
				sim.Select(false, rc)
				resp := rc.Val
				op.Return = int64(w.Seq())
				cur[k] = nil
				if resp.Key != key {
					w.Fail("response_for_other_request", "client %d asked about key %s and was answered about key %s | %s", k, key, resp.Key, lastDesc)
				}
				if !op.Put {
					op.OK = resp.OK
					if resp.OK {
						op.Value = resp.Value
					}
				}
				w.Probe("level_b_op_answered")
			}
			close(reqCh)
			clientsDone++
		})
	}
	faultsEnd := time.Duration(0)
	for _, c := range cuts {
		c := c
		if c.at+c.dur > faultsEnd {
			faultsEnd = c.at + c.dur
		}
		// half of the windows cut the server off from its peers only: clients still reach it (a
		// deposed leader that does not know it yet keeps talking to its clients)
		peersOnly := w.Choose(sim.KFault, 2) == 1
		w.Go("cut", func() {
			w.Sleep(c.at)
			if peersOnly {
				w.Probe("level_b_cut_from_peers_only")
				for j := 1; j <= n; j++ {
					if j != c.srv {
						net.CutLink(fmt.Sprintf("s%d", c.srv), fmt.Sprintf("s%d", j))
					}
				}
				w.Sleep(c.dur)
				for j := 1; j <= n; j++ {
					if j != c.srv {
						net.HealLink(fmt.Sprintf("s%d", c.srv), fmt.Sprintf("s%d", j))
					}
				}
				return
			}
			net.Isolate(fmt.Sprintf("s%d", c.srv))
			w.Sleep(c.dur)
			net.Heal(fmt.Sprintf("s%d", c.srv))
		})
	}
	stopped := false
	if stopSrv != 0 {
		if stopAt > faultsEnd {
			faultsEnd = stopAt
		}
		w.Go("stop", func() {
			w.Sleep(stopAt)
			if servers[stopSrv] != nil {
				w.Fault("server_stopped")
				servers[stopSrv].Close()
				stopped = true
			}
		})
	}
	// progress: elections take <= 300 ms, client time-outs <= 1.5 s, detector <= 450 ms
	ok := w.Await(func() bool { return clientsDone == nc || w.Failed() }, faultsEnd+90*time.Second)
	if !ok && !w.Failed() {
		// Not judged: with every archetype busy-polling, simulated CPU cost per step and the
		// election time-out decide whether a small cluster keeps electing for ever; the
		// property is about what clients observe, not about progress. Counted, and the
		// history so far is still checked (unanswered Puts stay pending).
		w.Probe("level_b_unfinished")
	}
	for _, o := range hist {
		lastHist = append(lastHist, *o)
	}
	answered := 0
	for _, o := range hist {
		if o.Return != 0 {
			answered++
		}
	}
	w.Count("client_ops", len(hist))
	w.Count("client_ops_answered", answered)
	if len(cuts) > 0 && answered > 0 {
		w.Probe("level_b_ops_with_partition")
	}
	if stopped && answered > 0 {
		w.Probe("level_b_ops_with_stopped_server")
	}
	// shut down
	for k := 1; k <= nc; k++ {
		if clients[k] != nil {
			k := k
			w.Go("cclose", func() { clients[k].Close() })
		}
	}
	for i := 1; i <= n; i++ {
		if servers[i] != nil && !(stopped && i == stopSrv) {
			i := i
			w.Go("sclose", func() { servers[i].Close() })
		}
	}
	w.Await(func() bool { return srvDone == n || w.Failed() }, 5*time.Minute)
	for _, db := range dbs {
		if db != nil {
			db.Close()
		}
	}
}
