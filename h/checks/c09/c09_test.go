// C09 — Raft KV clients observe a linearizable key-value store.
// Same level-A execution as C08; the recorded history of client operations (invoke =
// the request is taken from reqCh, return = the response is put on respCh, stamped with
// event sequence numbers) is checked with porcupine against a map model, outside the
// simulation. Operations without a response stay pending for ever.
package c09

import (
	"fmt"
	"os"
	"strings"
	"testing"
	"time"

	"github.com/anishathalye/porcupine"

	"verif/harness"
	"verif/raftrun"
	"verif/sim"
)

var lastHist []raftrun.Op
var lastDesc string

// one run in twelve is a level-B run (see levelb_test.go); the level is a function of
// the run's seed because the simulated CPU cost per step differs between the levels
// (level B needs the raftkvs bootstrap packages instrumented: the driver says so)
func isLevelB(seed uint64) bool {
	return os.Getenv("VERIF_C09_LEVELB") == "1" && sim.SplitMix64(seed^0xb09)%4 == 0
}

func configure(seed uint64, tier string) sim.RunConfig {
	if isLevelB(seed) {
		x := sim.SplitMix64(seed ^ 0xc09)
		maxSteps := 2_000_000
		if tier != "thorough" {
			maxSteps = 800_000 // about a minute of wall time at worst: the quick tier must stay quick
		}
		return sim.RunConfig{MaxSteps: maxSteps, MaxSim: 10 * time.Minute, PreemptProb: []float64{0.05, 0.2}[x%2],
			StepCost: []time.Duration{5 * time.Microsecond, 20 * time.Microsecond}[(x>>4)%2]}
	}
	return sim.RunConfig{MaxSteps: 3_000_000, StepCost: 1000}
}

func scenario(w *sim.World) {
	lastHist = nil
	if isLevelB(w.Config().Seed) {
		levelB(w)
		return
	}
	out := raftrun.Run(w, raftrun.Options{})
	for k, v := range out.Probes {
		for i := 0; i < v; i++ {
			w.Probe(k)
		}
	}
	w.Count("spec_steps", out.Steps)
	w.Count("client_ops", len(out.History))
	lastHist, lastDesc = out.History, out.Desc
	for _, f := range out.Failures {
		if strings.HasPrefix(f, "response_for_other_request|") || strings.HasPrefix(f, "archetype_failed|") {
			p := strings.SplitN(f, "|", 2)
			w.Fail(p[0], "%s", p[1])
		}
	}
	answered := 0
	for _, o := range out.History {
		if o.Return != 0 {
			answered++
		}
	}
	w.Count("client_ops_answered", answered)
}

type kvInput struct {
	Put   bool
	Key   string
	Value string
}
type kvOutput struct {
	OK    bool
	Value string
}

func postCheck(r *sim.Result) (string, string) {
	hist := lastHist
	if len(hist) == 0 {
		return "", ""
	}
	model := porcupine.Model{
		Partition: func(history []porcupine.Operation) [][]porcupine.Operation {
			m := map[string][]porcupine.Operation{}
			var keys []string
			for _, op := range history {
				k := op.Input.(kvInput).Key
				if _, ok := m[k]; !ok {
					keys = append(keys, k)
				}
				m[k] = append(m[k], op)
			}
			var out [][]porcupine.Operation
			for _, k := range keys {
				out = append(out, m[k])
			}
			return out
		},
		Init: func() interface{} { return "" }, // "" = not found
		Step: func(state, input, output interface{}) (bool, interface{}) {
			in := input.(kvInput)
			if in.Put {
				return true, in.Value
			}
			o := output.(kvOutput)
			cur := state.(string)
			if cur == "" {
				return !o.OK, state
			}
			return o.OK && o.Value == cur, state
		},
		Equal: func(a, b interface{}) bool { return a == b },
	}
	const forever = int64(1) << 60
	var ops []porcupine.Operation
	for i, o := range hist {
		ret := o.Return
		if ret == 0 {
			if !o.Put {
				continue // an unanswered Get constrains nothing
			}
			ret = forever + int64(i) // an unanswered Put may take effect at any later time
		}
		ops = append(ops, porcupine.Operation{ClientId: o.Client, Input: kvInput{o.Put, o.Key, o.Value}, Call: o.Call, Output: kvOutput{o.OK, o.Value}, Return: ret})
	}
	switch porcupine.CheckOperationsTimeout(model, ops, harness.PorcupineTimeout()) {
	case porcupine.Illegal:
		var sb strings.Builder
		for _, o := range hist {
			kind := "get"
			if o.Put {
				kind = "put"
			}
			fmt.Fprintf(&sb, "[c%d %s %s=%q ok=%v %d..%d sends=%d] ", o.Client, kind, o.Key, o.Value, o.OK, o.Call, o.Return, o.Sends)
		}
		// The recorded finding (a re-sent Put is appended to the log again; its second copy
		// takes effect later, over Puts acknowledged in between) explains a history exactly
		// when the history becomes linearizable once every re-sent Put may take effect a second
		// time at any later instant: a ghost Put per re-send that never returns (porcupine may
		// place it after everything else, so a ghost is optional). Anything else is reported.
		ghosts := append([]porcupine.Operation{}, ops...)
		resent := 0
		for i, o := range hist {
			if o.Put && o.Sends > 1 {
				resent++
				for g := 1; g < o.Sends && g <= 2; g++ {
					ghosts = append(ghosts, porcupine.Operation{ClientId: 1000 + 10*i + g, Input: kvInput{true, o.Key, o.Value}, Call: o.Call, Output: kvOutput{}, Return: forever + int64(1000+10*i+g)})
				}
			}
		}
		if resent > 0 && porcupine.CheckOperationsTimeout(model, ghosts, harness.PorcupineTimeout()) != porcupine.Illegal {
			return "not_linearizable_after_put_retry", fmt.Sprintf("the clients' history is not linearizable, and it is once the %d Put(s) that were re-sent after a time-out may take effect a second time (the request is appended to the log again): ", resent) + sb.String() + "| " + lastDesc
		}
		return "not_linearizable", "the clients' history is not linearizable w.r.t. a key-value map: " + sb.String() + "| " + lastDesc
	case porcupine.Unknown:
		r.Counts["porcupine_inconclusive"]++
	default:
		r.Counts["histories_checked"]++
	}
	// acknowledged Puts are never lost: the last acknowledged Put of a key that no other
	// Put overlaps or follows must be what a later Get returns (implied by linearizability; kept as a cheap cross-check)
	return "", ""
}

func TestWorker(t *testing.T) {
	harness.Worker(t, harness.Spec{
		Property:  "C09",
		Configure: configure,
		Scenario:  scenario,
		PostCheck: postCheck,
		NonTrivial: func(r *sim.Result) bool {
			return r.Counts["client_ops_answered"] >= 2
		},
		Describe: func(r *sim.Result) any {
			return map[string]any{"events": r.Events[:min(len(r.Events), 2)], "probes": r.Probes, "client_ops": r.Counts["client_ops"], "answered": r.Counts["client_ops_answered"]}
		},
	})
}
