// C19 — the failure detector is complete and settles to accurate answers.
// Real Monitors (ListenAndServe + RunArchetype) and real SingleFailureDetectors over
// the simulated network and clock; archetypes end normally, by error or by panic at
// drawn times; monitors are shut down or become unreachable; the network has a slow
// phase (latency above the detector time-out) followed by a calm one. A probe reads
// every detector every few simulated milliseconds.
package c19

import (
	"fmt"
	"strings"
	"testing"
	"time"

	"github.com/DistCompiler/pgo/distsys"
	"github.com/DistCompiler/pgo/distsys/resources"
	"github.com/DistCompiler/pgo/distsys/tla"

	"verif/harness"
	"verif/sim"
	"verif/sim/snet"
)

const (
	endNever = iota
	endNormal
	endError
	endPanic
)

var endNames = []string{"runs-on", "done", "error", "panic"}

type arch struct {
	id       int
	mon      int
	startAt  time.Duration
	endKind  int
	endAt    time.Duration // after start
	started  time.Duration // observed: RunArchetype called (-1 = not yet)
	ended    time.Duration // observed: RunArchetype returned (-1 = not yet)
	stop     bool
	ctx      *distsys.MPCalContext
	// a second life under the same id and monitor (restart after the first one ended)
	restart    bool
	restartGap time.Duration
	endKind2   int
	endAt2     time.Duration
	life       int
}

type monitor struct {
	id        int
	startAt   time.Duration
	downKind  int // 0 stays up, 1 Close(), 2 node isolated
	downAt    time.Duration
	listening time.Duration // observed (-1 = not yet)
	down      time.Duration // observed (-1 = not yet)
	m         *resources.Monitor
}

type detector struct {
	arch     int
	createAt time.Duration
	created  time.Duration
	fd       *resources.SingleFailureDetector
	sawAlive time.Duration // first read FALSE (-1 = never)
	reads    int
}

type sys struct {
	w        *sim.World
	interval time.Duration
	timeout  time.Duration
	mons     []*monitor
	archs    []*arch
	dets     []*detector
	slowFrom time.Duration
	slowFor  time.Duration
	horizon  time.Duration
	desc     string
}

func monAddr(i int) string { return fmt.Sprintf("mon%d:4000", i) }

func (s *sys) generate() {
	w := s.w
	s.interval = []time.Duration{10 * time.Millisecond, 50 * time.Millisecond, 200 * time.Millisecond}[w.Choose(sim.KCfg, 3)]
	s.timeout = []time.Duration{5 * time.Millisecond, 20 * time.Millisecond, 100 * time.Millisecond}[w.Choose(sim.KCfg, 3)]
	unit := s.interval
	s.horizon = 40 * unit
	nm := 1 + w.Choose(sim.KCfg, 2)
	for i := 0; i < nm; i++ {
		m := &monitor{id: i, startAt: time.Duration(w.Choose(sim.KCfg, 4)) * unit, listening: -1, down: -1}
		m.downKind = w.Choose(sim.KFault, 4)
		if m.downKind > 2 {
			m.downKind = 0
		}
		if m.downKind != 0 {
			m.downAt = m.startAt + time.Duration(4+w.Choose(sim.KFault, 16))*unit
		}
		s.mons = append(s.mons, m)
	}
	na := 1 + w.Choose(sim.KCfg, 3)
	for i := 0; i < na; i++ {
		a := &arch{id: i, mon: w.Choose(sim.KCfg, nm), started: -1, ended: -1}
		a.startAt = time.Duration(w.Choose(sim.KCfg, 6)) * unit
		a.endKind = w.Choose(sim.KCfg, 4)
		a.endAt = time.Duration(3+w.Choose(sim.KCfg, 14)) * unit
		if a.endKind != endNever && w.Choose(sim.KCfg, 3) == 1 {
			a.restart = true
			a.restartGap = time.Duration(1+w.Choose(sim.KCfg, 8)) * unit
			a.endKind2 = w.Choose(sim.KCfg, 4)
			a.endAt2 = time.Duration(3+w.Choose(sim.KCfg, 14)) * unit
		}
		s.archs = append(s.archs, a)
	}
	nd := 1 + w.Choose(sim.KCfg, 3)
	for i := 0; i < nd; i++ {
		d := &detector{arch: w.Choose(sim.KCfg, na), createAt: time.Duration(w.Choose(sim.KCfg, 8)) * unit, created: -1, sawAlive: -1}
		s.dets = append(s.dets, d)
	}
	if w.Choose(sim.KFault, 2) == 1 {
		s.slowFrom = time.Duration(2+w.Choose(sim.KFault, 10)) * unit
		s.slowFor = time.Duration(1+w.Choose(sim.KFault, 6)) * unit
	}
	var sb strings.Builder
	fmt.Fprintf(&sb, "interval=%v timeout=%v slow=[%v +%v] ", s.interval, s.timeout, s.slowFrom, s.slowFor)
	for _, m := range s.mons {
		fmt.Fprintf(&sb, "| M%d start@%v down=%d@%v ", m.id, m.startAt, m.downKind, m.downAt)
	}
	for _, a := range s.archs {
		fmt.Fprintf(&sb, "| A%d on M%d start@%v %s after %v ", a.id, a.mon, a.startAt, endNames[a.endKind], a.endAt)
		if a.restart {
			fmt.Fprintf(&sb, "restarted %v later, then %s after %v ", a.restartGap, endNames[a.endKind2], a.endAt2)
		}
	}
	for i, d := range s.dets {
		fmt.Fprintf(&sb, "| D%d watches A%d created@%v ", i, d.arch, d.createAt)
	}
	s.desc = sb.String()
}

func (s *sys) runMonitor(m *monitor) {
	w := s.w
	net := snet.Of(w)
	node := fmt.Sprintf("mnode%d", m.id)
	net.PlaceAddr(monAddr(m.id), node)
	m.m = resources.NewMonitor(monAddr(m.id))
	w.Go(fmt.Sprintf("M%d", m.id), func() {
		if m.startAt > 0 {
			w.Sleep(m.startAt)
		}
		m.listening = w.Now()
		err := m.m.ListenAndServe()
		_ = err
	})
	if m.downKind != 0 {
		w.Go(fmt.Sprintf("M%d-down", m.id), func() {
			w.Sleep(m.downAt)
			m.down = w.Now()
			if m.downKind == 1 {
				w.Fault("monitor_closed")
				m.m.Close()
			} else {
				w.Fault("monitor_isolated")
				net.Isolate(node)
			}
		})
	}
}

func (s *sys) runArch(a *arch) {
	w := s.w
	steps := 0
	body := func(iface distsys.ArchetypeInterface) error {
		steps++
		w.Sleep(s.interval / 4)
		if a.started >= 0 && w.Now()-a.started >= a.endAt {
			switch a.endKind {
			case endNormal:
				return iface.Goto("A.Done")
			case endError:
				return fmt.Errorf("%w: injected", distsys.ErrAssertionFailed)
			case endPanic:
				panic("injected archetype panic")
			}
		}
		if a.stop {
			return iface.Goto("A.Done")
		}
		return iface.Goto("A.l")
	}
	ar := distsys.MPCalArchetype{Name: "A", Label: "A.l",
		JumpTable: distsys.MakeMPCalJumpTable(
			distsys.MPCalCriticalSection{Name: "A.l", Body: body},
			distsys.MPCalCriticalSection{Name: "A.Done", Body: func(distsys.ArchetypeInterface) error { return distsys.ErrDone }}),
		ProcTable: distsys.MakeMPCalProcTable(), PreAmble: func(distsys.ArchetypeInterface) {}}
	w.Go(fmt.Sprintf("A%d", a.id), func() {
		if a.startAt > 0 {
			w.Sleep(a.startAt)
		}
		for {
			a.ctx = distsys.NewMPCalContext(tla.MakeNumber(int32(a.id)), ar)
			steps = 0
			a.ended = -1
			a.started = w.Now()
			_ = s.mons[a.mon].m.RunArchetype(a.ctx)
			a.ended = w.Now()
			if a.endKind != endNever {
				w.Probe("archetype_ended_" + endNames[a.endKind])
			}
			if !a.restart || a.life > 0 || a.stop {
				return
			}
			// the same archetype id runs again under the same monitor
			w.Sleep(a.restartGap)
			if a.stop {
				return
			}
			a.life = 1
			a.endKind, a.endAt = a.endKind2, a.endAt2
			w.Probe("archetype_restarted")
		}
	})
}

func (s *sys) runDetector(i int, d *detector) {
	w := s.w
	w.Go(fmt.Sprintf("D%d", i), func() {
		if d.createAt > 0 {
			w.Sleep(d.createAt)
		}
		a := s.archs[d.arch]
		d.fd = resources.NewSingleFailureDetector(tla.MakeNumber(int32(a.id)), monAddr(a.mon),
			resources.WithFailureDetectorPullInterval(s.interval), resources.WithFailureDetectorTimeout(s.timeout))
		d.created = w.Now()
	})
}

// settle is how long after an event a detector may take to reflect it: the event is
// seen by the next poll (<= interval), whose call may take up to the time-out, plus one
// more interval of slack for dial + scheduling.
func (s *sys) settle() time.Duration { return 2*s.interval + 2*s.timeout + 5*time.Millisecond }

func (s *sys) probe() {
	w := s.w
	// the network is fast again once everything written during the slow phase (one-way
	// latency 3 time-outs, FIFO per connection) has drained in both directions
	calmFrom := s.slowFrom + s.slowFor
	if s.slowFor > 0 {
		calmFrom += 6*s.timeout + s.interval
	}
	for w.Now() < s.horizon {
		w.Sleep(s.interval / 5)
		now := w.Now()
		for i, d := range s.dets {
			if d.fd == nil {
				continue
			}
			a := s.archs[d.arch]
			m := s.mons[a.mon]
			t0 := w.Now()
			v, err := d.fd.ReadValue(distsys.ArchetypeInterface{})
			took := w.Now() - t0
			d.reads++
			if took > s.interval+s.interval/2+time.Millisecond {
				w.Fail("read_delays_section", "detector %d: ReadValue took %v, more than one polling interval (%v) | %s", i, took, s.interval, s.desc)
			}
			if err != nil {
				if err != distsys.ErrCriticalSectionAborted {
					w.Fail("read_error", "detector %d: ReadValue returned %v | %s", i, err, s.desc)
				}
				// uninitialised: only legal until the first poll has completed
				if now > d.created+s.settle()+extraSlow(s, d.created) {
					w.Fail("stays_uninitialised", "detector %d still reports no state %v after its creation (interval %v, time-out %v) | %s", i, now-d.created, s.interval, s.timeout, s.desc)
				}
				continue
			}
			failedReported := v.AsBool()
			// completeness
			gone := time.Duration(-1)
			if a.ended >= 0 {
				gone = a.ended
			}
			// Monitor.Close only closes the listener: established connections keep being
			// served, so only isolation makes the monitor unreachable for a detector
			if m.down >= 0 && m.downKind == 2 && (gone < 0 || m.down < gone) {
				gone = m.down
			}
			if gone >= 0 && now > gone+s.settle()+extraSlow(s, gone) && now > d.created+s.settle() && !failedReported {
				what := "ended"
				if a.ended < 0 || (m.down >= 0 && m.down <= a.ended) {
					what = "lost its monitor"
				}
				w.Fail("not_complete", "detector %d reports archetype %d alive at %v although it %s at %v (interval %v, time-out %v) | %s", i, a.id, now, what, gone, s.interval, s.timeout, s.desc)
			}
			// accuracy once the network is calm: archetype running, monitor reachable
			running := a.started >= 0 && a.ended < 0 && m.listening >= 0 && m.down < 0
			if running {
				since := maxd(maxd(a.started, m.listening), maxd(d.created, calmFrom))
				if now > since+s.settle()+s.interval && failedReported {
					w.Fail("not_accurate", "detector %d reports archetype %d failed at %v although it has been running on a reachable monitor, with a calm network, since %v (interval %v, time-out %v) | %s", i, a.id, now, since, s.interval, s.timeout, s.desc)
				}
				if !failedReported {
					if d.sawAlive < 0 {
						d.sawAlive = now
					}
					w.Probe("alive_reported")
				}
			}
			if failedReported && gone >= 0 {
				w.Probe("failure_reported_after_end")
			}
		}
		if w.Failed() {
			return
		}
	}
}

// extraSlow: during the slow phase a poll can take longer (dial and call each up to the time-out)
func extraSlow(s *sys, at time.Duration) time.Duration {
	if s.slowFor > 0 && at < s.slowFrom+s.slowFor+6*s.timeout+s.interval {
		return s.slowFor + 6*s.timeout + s.interval
	}
	return 0
}

func maxd(a, b time.Duration) time.Duration {
	if a > b {
		return a
	}
	return b
}

func scenario(w *sim.World) {
	s := &sys{w: w}
	s.generate()
	w.Event("cfg %s", s.desc)
	net := snet.Of(w)
	for _, m := range s.mons {
		s.runMonitor(m)
	}
	for _, a := range s.archs {
		s.runArch(a)
	}
	for i, d := range s.dets {
		s.runDetector(i, d)
	}
	if s.slowFor > 0 {
		w.Go("slow-net", func() {
			w.Sleep(s.slowFrom)
			net.LatencyMin = 3 * s.timeout // every reply is slower than the time-out
			w.Fault("slow_network_phase")
			w.Sleep(s.slowFor)
			net.LatencyMin = 50 * time.Microsecond
		})
	}
	s.probe()
	if w.Failed() {
		return
	}
	// shutdown: every Close returns within two intervals
	for i, d := range s.dets {
		if d.fd == nil {
			continue
		}
		t0 := w.Now()
		_ = d.fd.Close()
		if took := w.Now() - t0; took > 2*s.interval+2*s.timeout+time.Second {
			w.Fail("close_slow", "detector %d: Close took %v | %s", i, took, s.desc)
		}
	}
	for _, a := range s.archs {
		a.stop = true
	}
	for _, m := range s.mons {
		if m.m != nil && m.down < 0 {
			m.m.Close()
		}
	}
	w.Sleep(s.interval)
	reads := 0
	for _, d := range s.dets {
		reads += d.reads
	}
	w.Count("detector_reads", reads)
}

func configure(seed uint64, tier string) sim.RunConfig {
	x := sim.SplitMix64(seed ^ 0xc19)
	return sim.RunConfig{
		MaxSteps:    600_000,
		MaxSim:      time.Hour,
		PreemptProb: []float64{0.05, 0.2, 0.4}[x%3],
		StepCost:    2 * time.Microsecond,
	}
}

func TestWorker(t *testing.T) {
	harness.Worker(t, harness.Spec{
		Property:  "C19",
		Configure: configure,
		Scenario:  scenario,
		NonTrivial: func(r *sim.Result) bool {
			return r.Counts["detector_reads"] > 10 && (r.Probes["failure_reported_after_end"] > 0 || r.Probes["alive_reported"] > 0)
		},
		Describe: func(r *sim.Result) any {
			return map[string]any{"events": r.Events[:min(len(r.Events), 2)], "probes": r.Probes, "faults": r.Faults, "detector_reads": r.Counts["detector_reads"]}
		},
	})
}
