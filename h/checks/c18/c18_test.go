// C18 — execution traces are faithful and causally consistent.
//
// 2-4 archetypes on the real runtime with tracing and vector clocks enabled
// (PGO_TRACE_DIR set for the worker process) communicate over real resources: Go
// channels (OutputChan -> InputChan), TCP mailboxes over the simulated network and
// shared variables (LocalSharedManager); each has a scalar and a function-valued local.
// Programs are drawn (sections x operations, chained assignments, indexed writes,
// sends before receives, attempts that abort at drawn positions, read time-outs).
//
// The harness keeps its own account of every attempt (what the body read and wrote
// through the interface, and the outcome told by a spy resource's Commit/Abort), and
// compares it with the trace, obtained either from the in-memory recorder
// (SetTraceRecorder) or from the JSON log files the runtime writes under PGO_TRACE_DIR.
package c18

import (
	"bufio"
	"encoding/json"
	"fmt"
	"os"
	"path/filepath"
	"sort"
	"strings"
	"testing"
	"time"

	"github.com/DistCompiler/pgo/distsys"
	"github.com/DistCompiler/pgo/distsys/resources"
	"github.com/DistCompiler/pgo/distsys/tla"
	"github.com/DistCompiler/pgo/distsys/trace"

	"verif/harness"
	"verif/sim"
	"verif/sim/snet"
)

// ---- normalised trace ----

type nElem struct {
	Write   bool
	Name    string // "<prefix>.<name>" or ".pc"
	Indices []string
	Value   string
	Old     *string // previous-value hint (writes)
}

func (e nElem) String() string {
	tag := "read"
	if e.Write {
		tag = "write"
	}
	old := ""
	if e.Old != nil {
		old = " (old " + *e.Old + ")"
	}
	idx := ""
	if len(e.Indices) > 0 {
		idx = "[" + strings.Join(e.Indices, ",") + "]"
	}
	return fmt.Sprintf("%s %s%s = %s%s", tag, e.Name, idx, e.Value, old)
}

type nEvent struct {
	Abort bool
	Elems []nElem
	Clock map[string]int // "A/<self>" -> n
}

func clockOf(c tla.VClock, n int) map[string]int {
	out := map[string]int{}
	for i := 0; i < n; i++ {
		if v := c.Get("A", tla.MakeNumber(int32(i))); v != 0 {
			out[fmt.Sprintf("A/%d", i)] = v
		}
	}
	return out
}

func dominates(a, b map[string]int) (bool, string) {
	var miss []string
	for k, v := range b {
		if a[k] < v {
			miss = append(miss, fmt.Sprintf("%s: %d < %d", k, a[k], v))
		}
	}
	sort.Strings(miss)
	return len(miss) == 0, strings.Join(miss, ", ")
}

func clockStr(c map[string]int) string {
	var ks []string
	for k := range c {
		ks = append(ks, k)
	}
	sort.Strings(ks)
	var sb strings.Builder
	sb.WriteString("{")
	for i, k := range ks {
		if i > 0 {
			sb.WriteString(", ")
		}
		fmt.Fprintf(&sb, "%s:%d", k, c[k])
	}
	sb.WriteString("}")
	return sb.String()
}

func fromEvent(ev trace.Event, n int) nEvent {
	out := nEvent{Abort: ev.IsAbort, Clock: clockOf(ev.Clock, n)}
	name := func(prefix, name string) string {
		if prefix == "" {
			return name
		}
		return prefix + "." + name
	}
	for _, el := range ev.Elements {
		switch el := el.(type) {
		case trace.ReadElement:
			e := nElem{Name: name(el.Prefix, el.Name), Value: el.Value.String()}
			for _, i := range el.Indices {
				e.Indices = append(e.Indices, i.String())
			}
			out.Elems = append(out.Elems, e)
		case trace.WriteElement:
			e := nElem{Write: true, Name: name(el.Prefix, el.Name), Value: el.Value.String()}
			for _, i := range el.Indices {
				e.Indices = append(e.Indices, i.String())
			}
			if el.OldValueHint != nil {
				s := el.OldValueHint.String()
				e.Old = &s
			}
			out.Elems = append(out.Elems, e)
		}
	}
	return out
}

// JSON log line, as written by trace.Event.MarshalJSON
type jLine struct {
	ArchetypeName string            `json:"archetypeName"`
	Self          string            `json:"self"`
	Elements      []json.RawMessage `json:"csElements"`
	Clock         [][]any           `json:"clock"`
	IsAbort       bool              `json:"isAbort"`
}

type jElem struct {
	Tag  string `json:"tag"`
	Name struct {
		Prefix string `json:"prefix"`
		Name   string `json:"name"`
		Self   string `json:"self"`
	} `json:"name"`
	Indices  []string `json:"indices"`
	Value    string   `json:"value"`
	OldValue *string  `json:"oldValue"`
}

func fromJSON(line []byte) (nEvent, string, error) {
	var jl jLine
	if err := json.Unmarshal(line, &jl); err != nil {
		return nEvent{}, "", err
	}
	out := nEvent{Abort: jl.IsAbort, Clock: map[string]int{}}
	for _, p := range jl.Clock {
		if len(p) != 2 {
			return out, "", fmt.Errorf("clock entry %v", p)
		}
		k, ok := p[0].([]any)
		if !ok || len(k) != 2 {
			return out, "", fmt.Errorf("clock key %v", p[0])
		}
		out.Clock[fmt.Sprintf("%v/%v", k[0], k[1])] = int(p[1].(float64))
	}
	for _, raw := range jl.Elements {
		var je jElem
		if err := json.Unmarshal(raw, &je); err != nil {
			return out, "", err
		}
		nm := je.Name.Name
		if je.Name.Prefix != "" {
			nm = je.Name.Prefix + "." + je.Name.Name
		}
		out.Elems = append(out.Elems, nElem{Write: je.Tag == "write", Name: nm, Indices: je.Indices, Value: je.Value, Old: je.OldValue})
	}
	return out, jl.Self, nil
}

// ---- programs ----

const (
	oReadX = iota
	oWriteX     // x := fresh
	oIncX       // x := x + 1 (read then write)
	oWriteF     // f[k] := fresh
	oReadF      // read f[k]
	oReadWholeF // read f
	oSendCh     // out channel to peer
	oRecvCh     // in channel from peer
	oSendMb     // mailbox of peer
	oRecvMb     // own mailbox
	oWriteSh    // shared variable := payload
	oReadSh
)

type op struct {
	kind int
	peer int    // channel/mailbox peer
	key  string // f index
	sh   int    // shared variable
	shKey int   // element of a function-valued shared variable (0 = the variable is a scalar, accessed whole)
}

type section struct {
	ops       []op
	failPre   bool // the failing attempts complete their body and are refused at pre-commit instead
	failAfter int // -1: never; else abort after this many ops ...
	failTimes int // ... this many times
}

type attempt struct {
	label    string
	elems    []nElem
	outcome  int // 0 unknown, 1 committed, 2 aborted
	writes   []wr
	clockEnd map[string]int
}

type wr struct {
	payload     string
	clockAtWrite map[string]int
}

type origin struct {
	node, attempt int
	clockAtWrite  map[string]int
	via           string
}

type node struct {
	id       int
	prog     []section
	attempts []*attempt
	events   []nEvent
	x        int32             // committed model of A.x
	f        map[string]int32  // committed model of A.f
	wx       int32
	wf       map[string]int32
	tries    []int
	reachedFin bool
}

type sys struct {
	w       *sim.World
	n       int
	nodes   []*node
	chans   map[[2]int]chan tla.Value
	nShared int
	shIdx   []bool // per shared variable: function-valued (every access is an element access sh[k])
	mgrs    []*resources.LocalSharedManager
	origins map[string]origin
	fresh   int32
	desc    string
	useFile bool
	dir     string
	fin     int
	done    int
}

var fkeys = []string{"a", "b", "c"}

func S(s string) tla.Value { return tla.MakeString(s) }

func (s *sys) generate() {
	w := s.w
	s.n = 2 + w.Choose(sim.KCfg, 3)
	s.nShared = w.Choose(sim.KCfg, 3)
	for v := 0; v < s.nShared; v++ {
		s.shIdx = append(s.shIdx, w.Choose(sim.KCfg, 2) == 1)
	}
	s.useFile = w.Choose(sim.KCfg, 3) == 0
	s.chans = map[[2]int]chan tla.Value{}
	s.origins = map[string]origin{}
	// channel links go from lower to higher ids (no wait cycles)
	for i := 0; i < s.n; i++ {
		for j := i + 1; j < s.n; j++ {
			if w.Choose(sim.KCfg, 2) == 0 {
				s.chans[[2]int{i, j}] = make(chan tla.Value, 64)
			}
		}
	}
	chSent := map[[2]int]int{}
	mbSent := make([]int, s.n)
	var sb strings.Builder
	budget := 40
	for i := 0; i < s.n; i++ {
		nd := &node{id: i, f: map[string]int32{"a": 0, "b": 0, "c": 0}}
		k := 1 + w.Choose(sim.KOp, 4)
		fmt.Fprintf(&sb, "| N%d:", i)
		chRecv := map[[2]int]int{}
		mbRecv := 0
		for j := 0; j < k; j++ {
			var sec section
			m := 1 + w.Choose(sim.KOp, 5)
			sb.WriteString("{")
			for q := 0; q < m && budget > 0; q++ {
				budget--
				var o op
				for tries := 0; ; tries++ {
					o = op{kind: w.Choose(sim.KOp, 12)}
					ok := true
					switch o.kind {
					case oWriteF, oReadF:
						o.key = fkeys[w.Choose(sim.KOp, 3)]
					case oSendCh:
						var peers []int
						for p := i + 1; p < s.n; p++ {
							if s.chans[[2]int{i, p}] != nil {
								peers = append(peers, p)
							}
						}
						if len(peers) == 0 {
							ok = false
							break
						}
						o.peer = peers[w.Choose(sim.KOp, len(peers))]
						chSent[[2]int{i, o.peer}]++
					case oRecvCh:
						var peers []int
						for p := 0; p < i; p++ {
							if s.chans[[2]int{p, i}] != nil && chRecv[[2]int{p, i}] < chSent[[2]int{p, i}] {
								peers = append(peers, p)
							}
						}
						if len(peers) == 0 {
							ok = false
							break
						}
						o.peer = peers[w.Choose(sim.KOp, len(peers))]
						chRecv[[2]int{o.peer, i}]++
					case oSendMb:
						if i == s.n-1 {
							ok = false
							break
						}
						o.peer = i + 1 + w.Choose(sim.KOp, s.n-1-i)
						mbSent[o.peer]++
					case oRecvMb:
						if mbRecv >= mbSent[i] {
							ok = false
							break
						}
						mbRecv++
					case oWriteSh, oReadSh:
						if s.nShared == 0 {
							ok = false
							break
						}
						o.sh = w.Choose(sim.KOp, s.nShared)
						if s.shIdx[o.sh] {
							o.shKey = 1 + w.Choose(sim.KOp, 2)
						}
					}
					if ok {
						break
					}
					if tries > 8 {
						o = op{kind: oIncX}
						break
					}
				}
				sec.ops = append(sec.ops, o)
				fmt.Fprintf(&sb, "%s ", o.describe())
			}
			sec.failAfter = -1
			if w.Choose(sim.KFault, 3) == 0 {
				sec.failAfter = w.Choose(sim.KFault, len(sec.ops)+1)
				sec.failTimes = 1 + w.Choose(sim.KFault, 2)
				sec.failPre = w.Choose(sim.KFault, 3) == 0
				fmt.Fprintf(&sb, "abort@%d x%d pre=%v", sec.failAfter, sec.failTimes, sec.failPre)
			}
			sb.WriteString("} ")
			nd.prog = append(nd.prog, sec)
		}
		nd.tries = make([]int, len(nd.prog))
		s.nodes = append(s.nodes, nd)
	}
	src := "recorder"
	if s.useFile {
		src = "json-files"
	}
	s.desc = fmt.Sprintf("nodes=%d shared=%d links=%d trace=%s %s", s.n, s.nShared, len(s.chans), src, sb.String())
}

func (o op) describe() string {
	switch o.kind {
	case oReadX:
		return "rx"
	case oWriteX:
		return "x:=v"
	case oIncX:
		return "x:=x+1"
	case oWriteF:
		return "f[" + o.key + "]:=v"
	case oReadF:
		return "rf[" + o.key + "]"
	case oReadWholeF:
		return "rf"
	case oSendCh:
		return fmt.Sprintf("ch!%d", o.peer)
	case oRecvCh:
		return fmt.Sprintf("ch?%d", o.peer)
	case oSendMb:
		return fmt.Sprintf("mb!%d", o.peer)
	case oRecvMb:
		return "mb?"
	case oWriteSh:
		if o.shKey > 0 {
			return fmt.Sprintf("sh%d[%d]:=v", o.sh, o.shKey)
		}
		return fmt.Sprintf("sh%d:=v", o.sh)
	case oReadSh:
		if o.shKey > 0 {
			return fmt.Sprintf("rsh%d[%d]", o.sh, o.shKey)
		}
		return fmt.Sprintf("rsh%d", o.sh)
	}
	return "?"
}

func addr(i int) string { return fmt.Sprintf("tr%d:5000", i) }

type spyRes struct {
	onCommit, onAbort func()
	refuse            bool // refuse the next pre-commit (the body of the attempt has completed)
}

func (r *spyRes) Abort(distsys.ArchetypeInterface) chan struct{}   { r.onAbort(); return nil }
func (r *spyRes) PreCommit(distsys.ArchetypeInterface) chan error {
	if r.refuse {
		r.refuse = false
		ch := make(chan error, 1)
		ch <- distsys.ErrCriticalSectionAborted
		return ch
	}
	return nil
}
func (r *spyRes) Commit(distsys.ArchetypeInterface) chan struct{}  { r.onCommit(); return nil }
func (r *spyRes) ReadValue(distsys.ArchetypeInterface) (tla.Value, error) {
	return tla.MakeNumber(0), nil
}
func (r *spyRes) WriteValue(distsys.ArchetypeInterface, tla.Value) error { return nil }
func (r *spyRes) Index(distsys.ArchetypeInterface, tla.Value) (distsys.ArchetypeResource, error) {
	return r, nil
}
func (r *spyRes) Close() error { return nil }

func fValue(f map[string]int32) tla.Value {
	var fs []tla.RecordField
	for _, k := range fkeys {
		fs = append(fs, tla.RecordField{Key: S(k), Value: tla.MakeNumber(f[k])})
	}
	return tla.MakeRecord(fs)
}

func (s *sys) payload(nd *node) tla.Value {
	s.fresh++
	return tla.MakeTuple(S("m"), tla.MakeNumber(int32(nd.id)), tla.MakeNumber(s.fresh))
}

func (s *sys) runNode(nd *node) {
	w := s.w
	i := nd.id
	var cur *attempt
	sp := &spyRes{
		onCommit: func() {
			if cur != nil {
				cur.outcome = 1
				nd.x = nd.wx
				nd.f = nd.wf
			}
		},
		onAbort: func() {
			if cur != nil {
				cur.outcome = 2
			}
		},
	}
	mbRes := resources.NewTCPMailboxes(func(idx tla.Value) (resources.MailboxKind, string) {
		if int(idx.AsNumber()) == i {
			return resources.MailboxesLocal, addr(i)
		}
		return resources.MailboxesRemote, addr(int(idx.AsNumber()))
	}, resources.WithMailboxesReadTimeout(20*time.Millisecond), resources.WithMailboxesWriteTimeout(3*time.Second), resources.WithMailboxesDialTimeout(3*time.Second))
	label := func(j int) string {
		if j < len(nd.prog) {
			return fmt.Sprintf("A.s%d", j)
		}
		return "A.fin"
	}
	begin := func(iface distsys.ArchetypeInterface, lbl string) (*attempt, error) {
		a := &attempt{label: lbl}
		nd.attempts = append(nd.attempts, a)
		cur = a
		nd.wx = nd.x
		nd.wf = map[string]int32{}
		for k, v := range nd.f {
			nd.wf[k] = v
		}
		a.elems = append(a.elems, nElem{Name: ".pc", Value: S(lbl).String()})
		if len(nd.attempts) == 1 {
			// mailboxes listen lazily (on first indexing): open the local one now, outside the
			// interface (nothing is logged), so senders can reach it whatever this node's program is
			if _, err := mbRes.Index(iface, tla.MakeNumber(int32(i))); err != nil {
				return a, err
			}
		}
		h, err := iface.RequireArchetypeResourceRef("A.spy")
		if err != nil {
			return a, err
		}
		v, err := iface.Read(h, nil)
		if err != nil {
			return a, err
		}
		a.elems = append(a.elems, nElem{Name: "A.spy", Value: v.String()})
		return a, nil
	}
	strp := func(s string) *string { return &s }
	gotoL := func(iface distsys.ArchetypeInterface, a *attempt, from, to string) error {
		err := iface.Goto(to)
		if err == nil {
			a.elems = append(a.elems, nElem{Write: true, Name: ".pc", Value: S(to).String(), Old: strp(S(from).String())})
		}
		return err
	}
	sawForeign := false
	mkBody := func(j int) func(distsys.ArchetypeInterface) error {
		return func(iface distsys.ArchetypeInterface) error {
			sec := nd.prog[j]
			a, err := begin(iface, label(j))
			if err != nil {
				return err
			}
			failNow := sec.failAfter >= 0 && nd.tries[j] < sec.failTimes
			if failNow && sec.failPre {
				// this attempt runs to the end of its body; a resource refuses the pre-commit
				nd.tries[j]++
				failNow = false
				sp.refuse = true
				w.Fault("precommit_refused")
				w.Probe("attempt_refused_at_precommit")
			}
			sentInAttempt := false
			for k, o := range sec.ops {
				if failNow && k == sec.failAfter {
					nd.tries[j]++
					w.Fault("await_false")
					return distsys.ErrCriticalSectionAborted
				}
				switch o.kind {
				case oReadX, oIncX:
					h := iface.RequireArchetypeResource("A.x")
					v, err := iface.Read(h, nil)
					if err != nil {
						return err
					}
					a.elems = append(a.elems, nElem{Name: "A.x", Value: v.String()})
					if v.AsNumber() != nd.wx {
						w.Fail("harness_model", "node %d reads x = %v, model says %d | %s", i, v, nd.wx, s.desc)
					}
					if o.kind == oIncX {
						nv := tla.MakeNumber(nd.wx + 1)
						if err := iface.Write(h, nil, nv); err != nil {
							return err
						}
						a.elems = append(a.elems, nElem{Write: true, Name: "A.x", Value: nv.String(), Old: strp(tla.MakeNumber(nd.wx).String())})
						nd.wx++
					}
				case oWriteX:
					h := iface.RequireArchetypeResource("A.x")
					s.fresh++
					nv := tla.MakeNumber(1000 + s.fresh)
					if err := iface.Write(h, nil, nv); err != nil {
						return err
					}
					a.elems = append(a.elems, nElem{Write: true, Name: "A.x", Value: nv.String(), Old: strp(tla.MakeNumber(nd.wx).String())})
					nd.wx = nv.AsNumber()
				case oWriteF:
					h := iface.RequireArchetypeResource("A.f")
					s.fresh++
					nv := tla.MakeNumber(2000 + s.fresh)
					if err := iface.Write(h, []tla.Value{S(o.key)}, nv); err != nil {
						return err
					}
					a.elems = append(a.elems, nElem{Write: true, Name: "A.f", Indices: []string{S(o.key).String()}, Value: nv.String(), Old: strp(tla.MakeNumber(nd.wf[o.key]).String())})
					nd.wf[o.key] = nv.AsNumber()
					w.Probe("indexed_local_write")
				case oReadF:
					h := iface.RequireArchetypeResource("A.f")
					v, err := iface.Read(h, []tla.Value{S(o.key)})
					if err != nil {
						return err
					}
					a.elems = append(a.elems, nElem{Name: "A.f", Indices: []string{S(o.key).String()}, Value: v.String()})
				case oReadWholeF:
					h := iface.RequireArchetypeResource("A.f")
					v, err := iface.Read(h, nil)
					if err != nil {
						return err
					}
					a.elems = append(a.elems, nElem{Name: "A.f", Value: v.String()})
				case oSendCh, oSendMb, oWriteSh:
					name := "A.mb"
					var idx []tla.Value
					via := "mailbox"
					if o.kind == oSendCh {
						name = fmt.Sprintf("A.out%d", o.peer)
						via = "channel"
					} else if o.kind == oSendMb {
						idx = []tla.Value{tla.MakeNumber(int32(o.peer))}
					} else {
						name = fmt.Sprintf("A.sh%d", o.sh)
						via = "shared variable"
						if o.shKey > 0 {
							idx = []tla.Value{tla.MakeNumber(int32(o.shKey))}
							w.Probe("indexed_shared_write")
						}
					}
					h, err := iface.RequireArchetypeResourceRef(name)
					if err != nil {
						return err
					}
					p := s.payload(nd)
					if err := iface.Write(h, idx, p); err != nil {
						if err == distsys.ErrCriticalSectionAborted {
							w.Probe("write_aborted")
						}
						return err
					}
					e := nElem{Write: true, Name: name, Value: p.String()}
					for _, x := range idx {
						e.Indices = append(e.Indices, x.String())
					}
					a.elems = append(a.elems, e)
					s.origins[p.String()] = origin{node: i, attempt: len(nd.attempts) - 1, clockAtWrite: clockOf(iface.GetVClockSink().GetVClock(), s.n), via: via}
					sentInAttempt = true
				case oRecvCh, oRecvMb, oReadSh:
					name := "A.mb"
					var idx []tla.Value
					if o.kind == oRecvCh {
						name = fmt.Sprintf("A.in%d", o.peer)
					} else if o.kind == oRecvMb {
						idx = []tla.Value{tla.MakeNumber(int32(i))}
					} else {
						name = fmt.Sprintf("A.sh%d", o.sh)
						if o.shKey > 0 {
							idx = []tla.Value{tla.MakeNumber(int32(o.shKey))}
						}
					}
					h, err := iface.RequireArchetypeResourceRef(name)
					if err != nil {
						return err
					}
					v, err := iface.Read(h, idx)
					if err != nil {
						if err == distsys.ErrCriticalSectionAborted {
							w.Probe("read_timeout_or_lock_timeout")
						}
						return err
					}
					e := nElem{Name: name, Value: v.String()}
					for _, x := range idx {
						e.Indices = append(e.Indices, x.String())
					}
					a.elems = append(a.elems, e)
					if og, ok := s.origins[v.String()]; ok && og.node != i {
						sawForeign = true
						if sentInAttempt {
							w.Probe("foreign_value_read_after_send_in_same_attempt")
						}
					}
				}
			}
			if failNow && sec.failAfter >= len(sec.ops) {
				nd.tries[j]++
				w.Fault("await_false")
				return distsys.ErrCriticalSectionAborted
			}
			return gotoL(iface, a, label(j), label(j+1))
		}
	}
	var secs []distsys.MPCalCriticalSection
	for j := range nd.prog {
		secs = append(secs, distsys.MPCalCriticalSection{Name: label(j), Body: mkBody(j)})
	}
	// the final label keeps the archetype (and its mailbox) alive until every program has ended
	secs = append(secs, distsys.MPCalCriticalSection{Name: "A.fin", Body: func(iface distsys.ArchetypeInterface) error {
		a, err := begin(iface, "A.fin")
		if err != nil {
			return err
		}
		if !nd.reachedFin {
			nd.reachedFin = true
			s.fin++
		}
		w.Await(func() bool { return s.fin == s.n }, 40*time.Minute)
		return gotoL(iface, a, "A.fin", "A.Done")
	}})
	secs = append(secs, distsys.MPCalCriticalSection{Name: "A.Done", Body: func(distsys.ArchetypeInterface) error { cur = nil; return distsys.ErrDone }})
	req := []string{"A.spy", "A.mb"}
	params := []distsys.MPCalContextConfigFn{
		distsys.EnsureArchetypeRefParam("spy", sp),
		distsys.EnsureArchetypeRefParam("mb", mbRes),
	}
	for p := 0; p < s.n; p++ {
		if ch := s.chans[[2]int{i, p}]; ch != nil {
			params = append(params, distsys.EnsureArchetypeRefParam(fmt.Sprintf("out%d", p), resources.NewOutputChan(ch)))
			req = append(req, fmt.Sprintf("A.out%d", p))
		}
		if ch := s.chans[[2]int{p, i}]; ch != nil {
			params = append(params, distsys.EnsureArchetypeRefParam(fmt.Sprintf("in%d", p), resources.NewInputChan(ch, resources.WithInputChanReadTimeout(10*time.Millisecond))))
			req = append(req, fmt.Sprintf("A.in%d", p))
		}
	}
	for v := 0; v < s.nShared; v++ {
		params = append(params, distsys.EnsureArchetypeRefParam(fmt.Sprintf("sh%d", v), s.mgrs[v].MakeLocalShared()))
		req = append(req, fmt.Sprintf("A.sh%d", v))
	}
	arch := distsys.MPCalArchetype{Name: "A", Label: "A.s0", RequiredRefParams: req,
		JumpTable: distsys.MakeMPCalJumpTable(secs...), ProcTable: distsys.MakeMPCalProcTable(),
		PreAmble: func(iface distsys.ArchetypeInterface) {
			iface.EnsureArchetypeResourceLocal("A.x", tla.MakeNumber(0))
			iface.EnsureArchetypeResourceLocal("A.f", fValue(map[string]int32{"a": 0, "b": 0, "c": 0}))
		}}
	if !s.useFile {
		params = append(params, distsys.SetTraceRecorder(recFn(func(ev trace.Event) {
			nd.events = append(nd.events, fromEvent(ev, s.n))
		})))
	}
	w.Go(fmt.Sprintf("N%d", i), func() {
		ctx := distsys.NewMPCalContext(tla.MakeNumber(int32(i)), arch, params...)
		if err := ctx.Run(); err != nil {
			w.Fail("run_error", "node %d: Run returned %v | %s", i, err, s.desc)
		}
		if sawForeign {
			w.Probe("foreign_value_read")
		}
		s.done++
	})
}

type recFn func(trace.Event)

func (f recFn) RecordEvent(ev trace.Event) { f(ev) }

func (s *sys) loadFiles() bool {
	w := s.w
	files, _ := filepath.Glob(filepath.Join(s.dir, "trace-*.log"))
	seen := map[string]bool{}
	for _, fn := range files {
		fh, err := os.Open(fn)
		if err != nil {
			w.Infra("cannot open trace file %s: %v", fn, err)
			return false
		}
		sc := bufio.NewScanner(fh)
		sc.Buffer(make([]byte, 1<<20), 1<<24)
		for sc.Scan() {
			ev, self, err := fromJSON(sc.Bytes())
			if err != nil {
				fh.Close()
				w.Fail("trace_file_unparsable", "%s: %v: %s | %s", filepath.Base(fn), err, sc.Text(), s.desc)
				return false
			}
			var id int
			if _, err := fmt.Sscanf(self, "%d", &id); err != nil || id < 0 || id >= s.n {
				fh.Close()
				w.Fail("trace_file_unparsable", "%s: self = %q | %s", filepath.Base(fn), self, s.desc)
				return false
			}
			if !seen[fn] && len(s.nodes[id].events) > 0 {
				w.Fail("trace_file_split", "events of node %d are spread over several files | %s", id, s.desc)
			}
			seen[fn] = true
			s.nodes[id].events = append(s.nodes[id].events, ev)
		}
		fh.Close()
	}
	return true
}

func cleanDir(dir string) {
	files, _ := filepath.Glob(filepath.Join(dir, "trace-*.log"))
	for _, f := range files {
		os.Remove(f)
	}
}

func eqElem(a, b nElem, checkOld bool) bool {
	if a.Write != b.Write || a.Name != b.Name || a.Value != b.Value || strings.Join(a.Indices, "\x00") != strings.Join(b.Indices, "\x00") {
		return false
	}
	if checkOld {
		if (a.Old == nil) != (b.Old == nil) {
			return false
		}
		if a.Old != nil && *a.Old != *b.Old {
			return false
		}
	}
	return true
}

func isLocal(name string) bool { return name == "A.x" || name == "A.f" || name == ".pc" }

func (s *sys) judge() {
	w := s.w
	for _, nd := range s.nodes {
		// one event per attempt, in program order
		if len(nd.events) != len(nd.attempts) {
			w.Fail("event_count", "node %d made %d critical-section attempts, the trace holds %d events | %s", nd.id, len(nd.attempts), len(nd.events), s.desc)
			return
		}
		// replay state of locals from the log alone
		x := "0"
		f := map[string]string{`"a"`: "0", `"b"`: "0", `"c"`: "0"}
		pc := S("A.s0").String()
		for k, ev := range nd.events {
			a := nd.attempts[k]
			if a.outcome == 0 {
				w.Fail("harness_model", "node %d attempt %d has no outcome | %s", nd.id, k, s.desc)
				return
			}
			if ev.Abort != (a.outcome == 2) {
				w.Fail("event_outcome", "node %d attempt #%d (%s) %s, the trace says isAbort = %v | %s", nd.id, k+1, a.label, map[int]string{1: "committed", 2: "aborted"}[a.outcome], ev.Abort, s.desc)
				return
			}
			if len(ev.Elems) != len(a.elems) {
				w.Fail("event_elements", "node %d attempt #%d (%s): performed %v, logged %v | %s", nd.id, k+1, a.label, a.elems, ev.Elems, s.desc)
				return
			}
			for q := range ev.Elems {
				if !eqElem(ev.Elems[q], a.elems[q], false) {
					w.Fail("event_elements", "node %d attempt #%d (%s) operation %d: performed %v, logged %v | %s", nd.id, k+1, a.label, q+1, a.elems[q], ev.Elems[q], s.desc)
					return
				}
				if isLocal(a.elems[q].Name) && a.elems[q].Write && !eqElem(ev.Elems[q], a.elems[q], true) {
					w.Fail("old_value_hint", "node %d attempt #%d (%s) operation %d: %v was performed, logged as %v | %s", nd.id, k+1, a.label, q+1, a.elems[q], ev.Elems[q], s.desc)
					return
				}
			}
			// replay of local state: committed writes (and the attempt's own) reproduce every logged read
			wx, wpc := x, pc
			wfm := map[string]string{}
			for kk, v := range f {
				wfm[kk] = v
			}
			for q, e := range ev.Elems {
				switch {
				case e.Name == "A.x" && !e.Write:
					if e.Value != wx {
						w.Fail("replay_mismatch", "node %d event #%d element %d: logged read of x = %s, replaying the logged writes gives %s | %s", nd.id, k+1, q+1, e.Value, wx, s.desc)
						return
					}
				case e.Name == "A.x":
					if e.Old != nil && *e.Old != wx {
						w.Fail("replay_mismatch", "node %d event #%d element %d: write of x carries previous value %s, replaying the logged writes gives %s | %s", nd.id, k+1, q+1, *e.Old, wx, s.desc)
						return
					}
					wx = e.Value
				case e.Name == ".pc" && !e.Write:
					if e.Value != wpc {
						w.Fail("replay_mismatch", "node %d event #%d: logged read of pc = %s, replaying the logged writes gives %s | %s", nd.id, k+1, e.Value, wpc, s.desc)
						return
					}
				case e.Name == ".pc":
					wpc = e.Value
				case e.Name == "A.f" && len(e.Indices) == 1 && !e.Write:
					if e.Value != wfm[e.Indices[0]] {
						w.Fail("replay_mismatch", "node %d event #%d element %d: logged read of f[%s] = %s, replaying the logged writes gives %s | %s", nd.id, k+1, q+1, e.Indices[0], e.Value, wfm[e.Indices[0]], s.desc)
						return
					}
				case e.Name == "A.f" && len(e.Indices) == 1:
					if e.Old != nil && *e.Old != wfm[e.Indices[0]] {
						w.Fail("replay_mismatch", "node %d event #%d element %d: write of f[%s] carries previous value %s, replaying the logged writes gives %s | %s", nd.id, k+1, q+1, e.Indices[0], *e.Old, wfm[e.Indices[0]], s.desc)
						return
					}
					wfm[e.Indices[0]] = e.Value
				case e.Name == "A.f" && !e.Write:
					want := "((\"a\") :> (" + wfm[`"a"`] + ") @@ (\"b\") :> (" + wfm[`"b"`] + ") @@ (\"c\") :> (" + wfm[`"c"`] + "))"
					if e.Value != want {
						w.Fail("replay_mismatch", "node %d event #%d element %d: logged read of f = %s, replaying the logged writes gives %s | %s", nd.id, k+1, q+1, e.Value, want, s.desc)
						return
					}
				}
			}
			if !ev.Abort {
				x, pc, f = wx, wpc, wfm
			}
			// own clock component: one tick per logged attempt
			me := fmt.Sprintf("A/%d", nd.id)
			if ev.Clock[me] != k+1 {
				w.Fail("own_clock_component", "node %d event #%d carries own clock component %d (clock %s) | %s", nd.id, k+1, ev.Clock[me], clockStr(ev.Clock), s.desc)
				return
			}
			if k > 0 {
				if ok, miss := dominates(ev.Clock, nd.events[k-1].Clock); !ok {
					w.Fail("clock_went_back", "node %d event #%d clock %s does not dominate its previous event's %s (%s) | %s", nd.id, k+1, clockStr(ev.Clock), clockStr(nd.events[k-1].Clock), miss, s.desc)
					return
				}
			}
		}
	}
	// reads-from: the reader's clock dominates the writer's
	laterRule, laterDetail := "", ""
	for _, nd := range s.nodes {
		for k, ev := range nd.events {
			for _, e := range ev.Elems {
				if e.Write {
					continue
				}
				og, ok := s.origins[e.Value]
				if !ok || og.node == nd.id {
					continue
				}
				w.Probe("reads_from_checked")
				wev := s.nodes[og.node].events[og.attempt]
				if wev.Abort {
					w.Fail("read_of_aborted_write", "node %d event #%d read %s, written by node %d's ABORTED attempt #%d | %s", nd.id, k+1, e.Value, og.node, og.attempt+1, s.desc)
					return
				}
				if ok, miss := dominates(ev.Clock, wev.Clock); !ok {
					detail := fmt.Sprintf("node %d event #%d (clock %s) read %s over a %s; it was written by node %d's attempt #%d, logged with clock %s (clock at the write statement %s): missing %s | %s",
						nd.id, k+1, clockStr(ev.Clock), e.Value, og.via, og.node, og.attempt+1, clockStr(wev.Clock), clockStr(og.clockAtWrite), miss, s.desc)
					// what the writer knew when it wrote travelled with the value; what it learned
					// later in the same attempt did not (recorded finding for mailboxes and shared
					// variables): keep looking for any other kind first
					if ok2, _ := dominates(ev.Clock, og.clockAtWrite); ok2 {
						if laterRule == "" {
							laterRule, laterDetail = "clock_not_dominating_writer_learned_after_write_"+strings.ReplaceAll(og.via, " ", "_"), detail
						}
						continue
					}
					w.Fail("clock_not_dominating", "%s", detail)
					return
				}
			}
		}
	}
	if laterRule != "" {
		w.Fail(laterRule, "%s", laterDetail)
	}
}

var workerDir string

func scenario(w *sim.World) {
	s := &sys{w: w, dir: workerDir}
	cleanDir(s.dir)
	s.generate()
	w.Event("cfg %s", s.desc)
	snet.Of(w).LatencyMax = []time.Duration{0, time.Millisecond}[w.Choose(sim.KCfg, 2)]
	for v := 0; v < s.nShared; v++ {
		init := tla.MakeNumber(0)
		if s.shIdx[v] {
			init = tla.MakeTuple(tla.MakeNumber(0), tla.MakeNumber(0))
		}
		s.mgrs = append(s.mgrs, resources.NewLocalSharedManager(init, resources.WithLocalSharedResourceTimeout(50*time.Millisecond)))
	}
	for _, nd := range s.nodes {
		s.runNode(nd)
	}
	ok := w.Await(func() bool { return s.done == s.n }, 60*time.Minute)
	if w.Failed() {
		cleanDir(s.dir)
		return
	}
	if !ok {
		cleanDir(s.dir)
		w.Fail("no_progress", "after 60 simulated minutes %d of %d archetypes have finished | %s", s.done, s.n, s.desc)
		return
	}
	if s.useFile {
		w.Probe("trace_from_json_files")
		if !s.loadFiles() {
			cleanDir(s.dir)
			return
		}
	} else {
		w.Probe("trace_from_recorder")
	}
	cleanDir(s.dir)
	s.judge()
	total, aborted := 0, 0
	for _, nd := range s.nodes {
		total += len(nd.attempts)
		for _, a := range nd.attempts {
			if a.outcome == 2 {
				aborted++
			}
		}
	}
	w.Count("attempts", total)
	w.Count("aborted_attempts", aborted)
	if aborted > 0 {
		w.Probe("aborted_attempt_logged")
	}
}

func configure(seed uint64, tier string) sim.RunConfig {
	x := sim.SplitMix64(seed ^ 0xc18)
	cfg := sim.RunConfig{
		MaxSteps:    1_500_000,
		MaxSim:      3 * time.Hour,
		PreemptProb: []float64{0.05, 0.2, 0.4}[x%3],
		StepCost:    []time.Duration{20 * time.Microsecond, 200 * time.Microsecond}[(x>>4)%2],
	}
	if (x>>8)%3 == 0 {
		cfg.StallProb = 0.01
		cfg.StallMax = 50 * time.Millisecond
	}
	return cfg
}

func TestWorker(t *testing.T) {
	base := os.Getenv("PGO_TRACE_DIR")
	if base == "" {
		fmt.Println("C18 worker needs PGO_TRACE_DIR (vector clocks are enabled at process start)")
		os.Exit(2)
	}
	workerDir = filepath.Join(base, fmt.Sprintf("w%d", os.Getpid()))
	if err := os.MkdirAll(workerDir, 0o755); err != nil {
		fmt.Println("cannot create", workerDir, err)
		os.Exit(2)
	}
	os.Setenv("PGO_TRACE_DIR", workerDir)
	defer os.RemoveAll(workerDir)
	harness.Worker(t, harness.Spec{
		Property:  "C18",
		Configure: configure,
		Scenario:  scenario,
		NonTrivial: func(r *sim.Result) bool {
			return r.Counts["attempts"] >= 4
		},
	})
}
