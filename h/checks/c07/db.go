package c07

import (
	"bytes"
	"encoding/gob"

	"github.com/DistCompiler/pgo/distsys/tla"
	"github.com/dgraph-io/badger/v3"

	"verif/sim"
	"verif/ulib"
)

func openDB(w *sim.World) *badger.DB {
	db, err := badger.Open(badger.DefaultOptions("").WithInMemory(true).WithLogger(nil).WithNumCompactors(0).WithNumGoroutines(1))
	if err != nil {
		w.Infra("cannot open in-memory badger: %v", err)
		return nil
	}
	return db
}

// readDB returns the canonical rendering of the tla.Value stored under key.
func readDB(db *badger.DB, key string) (string, bool) {
	var out string
	found := false
	_ = db.View(func(txn *badger.Txn) error {
		item, err := txn.Get([]byte(key))
		if err != nil {
			return nil
		}
		return item.Value(func(val []byte) error {
			var v tla.Value
			if err := gob.NewDecoder(bytes.NewReader(val)).Decode(&v); err != nil {
				out = "undecodable: " + err.Error()
			} else {
				out = ulib.Canon(v)
			}
			found = true
			return nil
		})
	})
	return out, found
}
