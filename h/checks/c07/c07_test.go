// C07 — variables shared between archetypes of a process are serializable.
// 2-5 archetype contexts share 1-4 variables through the REAL LocalSharedManager
// (some wrapped in Persistent as raft does). Sections read and write variables in
// drawn (deliberately opposite) orders with unique values, transfer amounts between
// two variables and increment counters. Oracles: conservation, strict serializability
// of the committed sections (porcupine, multi-register transaction model), no effect
// of aborted sections, bounded progress (no deadlock).
package c07

import (
	"fmt"
	"github.com/dgraph-io/badger/v3"
	"strings"
	"testing"
	"time"

	"github.com/DistCompiler/pgo/distsys"
	"github.com/DistCompiler/pgo/distsys/resources"
	"github.com/DistCompiler/pgo/distsys/tla"
	"github.com/DistCompiler/pgo/distsys/trace"
	"github.com/anishathalye/porcupine"

	"verif/harness"
	"verif/sim"
	"verif/ulib"
)

const (
	kRead = iota
	kWrite
	kIdxWrite // f[k] := v on a function-valued variable
	kIdxRead
)

type op struct {
	kind int
	v    int   // variable
	idx  int32 // for indexed ops
	// write value: abs (unique) or relative to the last value read of variable `from`
	val   int32
	rel   bool
	from  int
	delta int32
}

type section struct {
	ops       []op
	failAfter int
	failTimes int
}

// one committed section = one operation of the history
type step struct {
	Write bool
	Var   int
	Idx   int32
	Val   int32
}

type histOp struct {
	client    int
	call, ret int64
	steps     []step
}

var lastHistory []histOp // handed to PostCheck (one run at a time per process)
var lastVars int
var lastDesc string
var lastIndexed []bool

type sys struct {
	w        *sim.World
	nVars    int
	indexed  []bool
	mgrs     []*resources.LocalSharedManager
	timeouts []time.Duration
	holder   map[int]int // variable -> context whose section body is running and has accessed it (mutual exclusion oracle)
	db       *badger.DB  // non-nil: every sharer's handle is wrapped in Persistent (in-memory badger)
	progs    [][]section
	hist     []histOp
	done     int
	lastEnd  map[int]time.Duration // per context: when its latest attempt ended
	finished map[int]bool
	desc     string
	incs     []int // committed increments per variable (counter vars)
}

func (s *sys) generate() {
	w := s.w
	s.nVars = 1 + w.Choose(sim.KCfg, 4)
	nCtx := 2 + w.Choose(sim.KCfg, 4)
	tos := []time.Duration{0, time.Millisecond, 50 * time.Millisecond, time.Second}
	var sb strings.Builder
	for v := 0; v < s.nVars; v++ {
		to := tos[1+w.Choose(sim.KCfg, 3)]
		if w.Choose(sim.KCfg, 12) == 0 {
			to = 0
		}
		s.indexed = append(s.indexed, w.Choose(sim.KCfg, 3) == 0)
		init := tla.MakeNumber(100)
		if s.indexed[v] {
			init = tla.MakeTuple(tla.MakeNumber(100), tla.MakeNumber(100))
		}
		s.mgrs = append(s.mgrs, resources.NewLocalSharedManager(init, resources.WithLocalSharedResourceTimeout(to)))
		s.timeouts = append(s.timeouts, to)
		fmt.Fprintf(&sb, "v%d(timeout %v indexed=%v) ", v, to, s.indexed[v])
	}
	s.incs = make([]int, s.nVars)
	uniq := int32(1000)
	for c := 0; c < nCtx; c++ {
		n := 1 + w.Choose(sim.KOp, 5)
		var prog []section
		fmt.Fprintf(&sb, "| C%d:", c)
		for j := 0; j < n; j++ {
			sec := section{failAfter: -1}
			switch w.Choose(sim.KOp, 4) {
			case 0: // increment a variable
				v := w.Choose(sim.KOp, s.nVars)
				if s.indexed[v] {
					i := int32(1 + w.Choose(sim.KOp, 2))
					sec.ops = []op{{kind: kIdxRead, v: v, idx: i}, {kind: kIdxWrite, v: v, idx: i, rel: true, from: v, delta: 1}}
				} else {
					sec.ops = []op{{kind: kRead, v: v}, {kind: kWrite, v: v, rel: true, from: v, delta: 1}}
				}
			case 1: // transfer between two variables (opposite orders arise by the draw)
				a := w.Choose(sim.KOp, s.nVars)
				b := w.Choose(sim.KOp, s.nVars)
				if s.indexed[a] || s.indexed[b] || a == b {
					a = -1
				}
				if a >= 0 {
					amt := int32(1 + w.Choose(sim.KOp, 9))
					sec.ops = []op{{kind: kRead, v: a}, {kind: kRead, v: b}, {kind: kWrite, v: a, rel: true, from: a, delta: -amt}, {kind: kWrite, v: b, rel: true, from: b, delta: amt}}
					break
				}
				fallthrough
			default: // arbitrary reads/writes of unique values
				k := 1 + w.Choose(sim.KOp, 4)
				for x := 0; x < k; x++ {
					v := w.Choose(sim.KOp, s.nVars)
					wr := w.Choose(sim.KOp, 2) == 1
					o := op{v: v}
					if s.indexed[v] {
						o.idx = int32(1 + w.Choose(sim.KOp, 2))
						o.kind = kIdxRead
						if wr {
							o.kind = kIdxWrite
						}
					} else {
						o.kind = kRead
						if wr {
							o.kind = kWrite
						}
					}
					if wr {
						uniq++
						o.val = uniq
					}
					sec.ops = append(sec.ops, o)
				}
			}
			if w.Choose(sim.KFault, 4) == 1 {
				sec.failAfter = w.Choose(sim.KFault, len(sec.ops)+1)
				sec.failTimes = 1 + w.Choose(sim.KFault, 2)
			}
			prog = append(prog, sec)
			sb.WriteString("{")
			for _, o := range sec.ops {
				switch o.kind {
				case kRead:
					fmt.Fprintf(&sb, "r v%d;", o.v)
				case kIdxRead:
					fmt.Fprintf(&sb, "r v%d[%d];", o.v, o.idx)
				case kWrite, kIdxWrite:
					ix := ""
					if o.kind == kIdxWrite {
						ix = fmt.Sprintf("[%d]", o.idx)
					}
					if o.rel {
						fmt.Fprintf(&sb, "v%d%s:=v%d%+d;", o.v, ix, o.from, o.delta)
					} else {
						fmt.Fprintf(&sb, "v%d%s:=%d;", o.v, ix, o.val)
					}
				}
			}
			if sec.failAfter >= 0 {
				fmt.Fprintf(&sb, "fail@%dx%d", sec.failAfter, sec.failTimes)
			}
			sb.WriteString("}")
		}
		s.progs = append(s.progs, prog)
	}
	s.desc = sb.String()
}

func (s *sys) runCtx(c int) {
	w := s.w
	prog := s.progs[c]
	attempts := make([]int, len(prog))
	var cur []step
	var call int64
	s.lastEnd[c] = w.Now()
	rec := &ulib.Recorder{OnEvent: func(ev trace.Event) {
		s.lastEnd[c] = w.Now() // an attempt ended (committed or aborted): this context is not blocked
		if cur == nil {
			return
		}
		if ev.IsAbort {
			w.Probe("attempt_aborted")
		} else {
			s.hist = append(s.hist, histOp{client: c, call: call, ret: int64(w.Seq()), steps: cur})
		}
		cur = nil
	}}
	var params []distsys.MPCalContextConfigFn
	var req []string
	for v := 0; v < s.nVars; v++ {
		var res distsys.ArchetypeResource
		if s.db == nil {
			res = s.mgrs[v].MakeLocalShared()
		} else {
			// as raftkvs binds currentTerm/votedFor when it persists: the shared variable behind a Persistent wrapper
			res = resources.MakePersistent(fmt.Sprintf("v%d-c%d", v, c), s.db, s.mgrs[v].MakeLocalShared())
		}
		params = append(params, distsys.EnsureArchetypeRefParam(fmt.Sprintf("v%d", v), res))
		req = append(req, fmt.Sprintf("A.v%d", v))
	}
	mkBody := func(j int) func(distsys.ArchetypeInterface) error {
		return func(iface distsys.ArchetypeInterface) error {
			sec := prog[j]
			call = int64(w.Seq())
			cur = []step{}
			failNow := sec.failAfter >= 0 && attempts[j] < sec.failTimes
			last := map[int]int32{}
			lastIdx := map[[2]int32]int32{}
			held := map[int]bool{}
			// mutual exclusion: from a section's first successful access to a variable until its
			// body returns (the lock is released later still, in Commit/Abort) no other context's
			// access to that variable succeeds
			defer func() {
				for v := range held {
					if s.holder[v] == c+1 {
						delete(s.holder, v)
					}
				}
			}()
			for k, o := range sec.ops {
				if failNow && k == sec.failAfter {
					attempts[j]++
					w.Fault("await_false")
					return distsys.ErrCriticalSectionAborted
				}
				h, err := iface.RequireArchetypeResourceRef(fmt.Sprintf("A.v%d", o.v))
				if err != nil {
					return err
				}
				if !held[o.v] && len(held) > 0 {
					w.Probe("second_lock_in_section")
				}
				opStart, lagStart := w.Now(), w.SelfLag()
				checkDur := func() {
					if took := (w.Now() - opStart) - (w.SelfLag() - lagStart); took > s.timeouts[o.v]+5*time.Millisecond {
						w.Fail("acquisition_outlived_timeout", "context %d: an operation on v%d (lock time-out %v) took %v of its own simulated time | %s", c, o.v, s.timeouts[o.v], took, s.desc)
					}
				}
				switch o.kind {
				case kRead:
					v, err := iface.Read(h, nil)
					if err != nil {
						checkDur()
						if err == distsys.ErrCriticalSectionAborted {
							w.Probe("lock_timeout")
						}
						return err
					}
					last[o.v] = v.AsNumber()
					cur = append(cur, step{Var: o.v, Val: v.AsNumber()})
				case kIdxRead:
					v, err := iface.Read(h, []tla.Value{tla.MakeNumber(o.idx)})
					if err != nil {
						checkDur()
						if err == distsys.ErrCriticalSectionAborted {
							w.Probe("lock_timeout")
						}
						return err
					}
					lastIdx[[2]int32{int32(o.v), o.idx}] = v.AsNumber()
					cur = append(cur, step{Var: o.v, Idx: o.idx, Val: v.AsNumber()})
				case kWrite:
					val := o.val
					if o.rel {
						val = last[o.from] + o.delta
					}
					if err := iface.Write(h, nil, tla.MakeNumber(val)); err != nil {
						checkDur()
						if err == distsys.ErrCriticalSectionAborted {
							w.Probe("lock_timeout")
						}
						return err
					}
					last[o.v] = val
					cur = append(cur, step{Write: true, Var: o.v, Val: val})
				case kIdxWrite:
					val := o.val
					if o.rel {
						val = lastIdx[[2]int32{int32(o.from), o.idx}] + o.delta
					}
					if err := iface.Write(h, []tla.Value{tla.MakeNumber(o.idx)}, tla.MakeNumber(val)); err != nil {
						checkDur()
						if err == distsys.ErrCriticalSectionAborted {
							w.Probe("lock_timeout")
						}
						return err
					}
					lastIdx[[2]int32{int32(o.v), o.idx}] = val
					cur = append(cur, step{Write: true, Var: o.v, Idx: o.idx, Val: val})
				}
				// an acquisition that cannot succeed aborts after the variable's time-out: whatever the
				// holder does, no operation on a shared variable takes longer than that (net of the
				// time the simulator itself took from this task)
				checkDur()
				if other := s.holder[o.v]; other != 0 && other != c+1 {
					w.Fail("two_sections_hold_variable", "context %d accessed v%d while the section of context %d, which had accessed it, was still running (the variable's lock is held until that section commits or aborts) | %s", c, o.v, other-1, s.desc)
				}
				s.holder[o.v] = c + 1
				held[o.v] = true
			}
			if failNow && sec.failAfter == len(sec.ops) {
				attempts[j]++
				w.Fault("await_false")
				return distsys.ErrCriticalSectionAborted
			}
			next := "A.Done"
			if j+1 < len(prog) {
				next = fmt.Sprintf("A.s%d", j+1)
			}
			return iface.Goto(next)
		}
	}
	var secs []distsys.MPCalCriticalSection
	for j := range prog {
		secs = append(secs, distsys.MPCalCriticalSection{Name: fmt.Sprintf("A.s%d", j), Body: mkBody(j)})
	}
	secs = append(secs, distsys.MPCalCriticalSection{Name: "A.Done", Body: func(distsys.ArchetypeInterface) error { return distsys.ErrDone }})
	arch := distsys.MPCalArchetype{Name: "A", Label: "A.s0", RequiredRefParams: req,
		JumpTable: distsys.MakeMPCalJumpTable(secs...), ProcTable: distsys.MakeMPCalProcTable(), PreAmble: func(distsys.ArchetypeInterface) {}}
	params = append(params, distsys.SetTraceRecorder(rec))
	w.Go(fmt.Sprintf("C%d", c), func() {
		ctx := distsys.NewMPCalContext(tla.MakeNumber(int32(c)), arch, params...)
		if err := ctx.Run(); err != nil {
			w.Fail("run_error", "context %d: Run returned %v | %s", c, err, s.desc)
		}
		s.finished[c] = true
		s.done++
	})
}

func scenario(w *sim.World) {
	s := &sys{w: w, lastEnd: map[int]time.Duration{}, finished: map[int]bool{}, holder: map[int]int{}}
	s.generate()
	if w.Choose(sim.KCfg, 3) == 1 {
		s.db = openDB(w)
		if s.db == nil {
			return
		}
		defer s.db.Close()
		s.desc += " | every handle wrapped in Persistent"
		w.Probe("persistent_wrapped")
	}
	w.Event("cfg %s", s.desc)
	for c := range s.progs {
		s.runCtx(c)
	}
	// bounded progress: lock time-outs <= 1 s, <= 25 sections in total, stalls <= 2 s
	ok := w.Await(func() bool { return s.done == len(s.progs) }, 30*time.Minute)
	lastHistory, lastVars, lastDesc, lastIndexed = s.hist, s.nVars, s.desc, s.indexed
	if !ok {
		// The property promises that an acquisition which cannot succeed aborts instead of
		// blocking for ever, not that contending sections eventually win (stalled holders
		// and short time-outs can starve everybody by time-outs for as long as the
		// schedule likes). So: a context none of whose attempts has ended for 5 simulated
		// minutes (lock time-outs <= 1 s, stalls <= 2 s, <= 6 operations) is blocked: a
		// violation; contexts that keep aborting and retrying are starved: counted.
		blocked := ""
		for c := range s.progs {
			if !s.finished[c] && w.Now()-s.lastEnd[c] > 5*time.Minute {
				blocked += fmt.Sprintf(" context %d: no attempt has ended since %v;", c, s.lastEnd[c])
			}
		}
		if blocked != "" {
			w.Fail("no_progress", "after 30 simulated minutes only %d of %d archetypes finished and an acquisition blocks for ever:%s | %s", s.done, len(s.progs), blocked, s.desc)
		} else {
			w.Probe("starved_by_timeouts")
		}
	}
	w.Count("committed_sections", len(s.hist))
	if len(s.progs) >= 3 {
		w.Probe("three_or_more_sharers")
	}
}

// ---- porcupine model: multi-register transactions ----

type txState struct {
	vals [][2]int32 // per variable: scalar in [0], or two indexed slots
}

func initState(n int) txState {
	st := txState{vals: make([][2]int32, n)}
	for i := range st.vals {
		st.vals[i] = [2]int32{100, 100}
	}
	return st
}

func slot(indexed []bool, s step) int {
	if indexed[s.Var] {
		return int(s.Idx - 1)
	}
	return 0
}

func postCheck(r *sim.Result) (string, string) {
	hist, n, indexed := lastHistory, lastVars, lastIndexed
	if len(hist) == 0 {
		return "", ""
	}
	model := porcupine.Model{
		Init: func() interface{} { return initState(n) },
		Step: func(state, input, output interface{}) (bool, interface{}) {
			st := state.(txState)
			nv := txState{vals: append([][2]int32(nil), st.vals...)}
			for _, sp := range input.([]step) {
				k := slot(indexed, sp)
				if sp.Write {
					nv.vals[sp.Var][k] = sp.Val
				} else if nv.vals[sp.Var][k] != sp.Val {
					return false, state
				}
			}
			return true, nv
		},
		Equal: func(a, b interface{}) bool {
			x, y := a.(txState), b.(txState)
			for i := range x.vals {
				if x.vals[i] != y.vals[i] {
					return false
				}
			}
			return true
		},
		DescribeOperation: func(input, output interface{}) string { return fmt.Sprint(input) },
	}
	var ops []porcupine.Operation
	for _, h := range hist {
		ops = append(ops, porcupine.Operation{ClientId: h.client, Input: h.steps, Call: h.call, Output: nil, Return: h.ret})
	}
	res := porcupine.CheckOperationsTimeout(model, ops, harness.PorcupineTimeout())
	switch res {
	case porcupine.Illegal:
		var sb strings.Builder
		for _, h := range hist {
			fmt.Fprintf(&sb, "[C%d %d..%d %v] ", h.client, h.call, h.ret, h.steps)
		}
		return "not_serializable", fmt.Sprintf("the committed sections are not equivalent to any serial order consistent with real time: %s | %s", sb.String(), lastDesc)
	case porcupine.Unknown:
		r.Counts["porcupine_inconclusive"]++
	default:
		r.Counts["histories_checked"]++
	}
	return "", ""
}

func configure(seed uint64, tier string) sim.RunConfig {
	x := sim.SplitMix64(seed ^ 0xc07)
	cfg := sim.RunConfig{
		MaxSteps:    1_000_000,
		MaxSim:      2 * time.Hour,
		PreemptProb: []float64{0.05, 0.2, 0.5}[x%3],
		StepCost:    []time.Duration{2 * time.Microsecond, 20 * time.Microsecond, 200 * time.Microsecond}[(x>>4)%3],
	}
	if (x>>8)%2 == 0 {
		cfg.StallProb = []float64{0.01, 0.05}[(x>>12)%2]
		cfg.StallMax = []time.Duration{100 * time.Millisecond, 2 * time.Second}[(x>>16)%2]
	}
	return cfg
}

func TestWorker(t *testing.T) {
	harness.Worker(t, harness.Spec{
		Property:  "C07",
		Configure: configure,
		Scenario:  scenario,
		PostCheck: postCheck,
		NonTrivial: func(r *sim.Result) bool {
			return r.Counts["committed_sections"] >= 2 && (r.Preemptions > 0 || r.Probes["lock_timeout"] > 0)
		},
		Describe: func(r *sim.Result) any {
			return map[string]any{"events": r.Events[:min(len(r.Events), 2)], "probes": r.Probes, "faults": r.Faults, "committed_sections": r.Counts["committed_sections"]}
		},
	})
}
