// C04 — procedure calls follow PlusCal stack semantics (recursion, tail calls, refs,
// aborts between call and return). Generated call graphs are executed by the real
// ArchetypeInterface.Call/TailCall/Return/Goto inside MPCalContext.Run and, in
// lock-step, by a small reference interpreter of PlusCal call semantics.
package c04

import (
	"fmt"
	"sort"
	"strings"
	"testing"

	"github.com/DistCompiler/pgo/distsys"
	"github.com/DistCompiler/pgo/distsys/tla"

	"verif/harness"
	"verif/sim"
)

type exprKind int

const (
	eConst exprKind = iota
	eVar
	eVarPlus
)

type expr struct {
	kind exprKind
	v    string // short variable name in the current context
	c    int32
}

type assign struct {
	target string
	src    expr
}

type termKind int

const (
	tGoto termKind = iota
	tCall
	tTailCall
	tReturn
	tDone
)

type arg struct {
	ref bool
	v   string // for ref: short var name in caller context
	e   expr   // for value
}

type term struct {
	kind termKind
	proc int   // callee
	args []arg // excluding fuel; fuel passed is fuel-1 (procs) or a constant (archetype)
	fuel int32 // archetype: constant fuel passed
}

type labelDef struct {
	assigns []assign
	t       term
	aborts  int // number of attempts of this label that fail after doing all their work
}

type varDef struct {
	name   string
	ref    bool
	local  bool
	hasIni bool
	ini    int32
}

type ctxDef struct {
	name   string
	isProc bool
	vars   []varDef // procs: params first (vars[0] = fuel), then locals
	labels []labelDef
}

func (c *ctxDef) v(name string) *varDef {
	for i := range c.vars {
		if c.vars[i].name == name {
			return &c.vars[i]
		}
	}
	return nil
}

func (c *ctxDef) nParams() int {
	n := 0
	for _, v := range c.vars {
		if !v.local {
			n++
		}
	}
	return n
}

type program struct {
	procs []*ctxDef
	arch  *ctxDef
}

// ---- generation ----

func genExpr(w *sim.World, c *ctxDef, numeric []string) expr {
	k := w.Choose(sim.KOp, 3)
	if len(numeric) == 0 || k == 0 {
		return expr{kind: eConst, c: int32(w.Choose(sim.KOp, 50))}
	}
	v := numeric[w.Choose(sim.KOp, len(numeric))]
	if k == 1 {
		return expr{kind: eVar, v: v}
	}
	return expr{kind: eVarPlus, v: v, c: int32(1 + w.Choose(sim.KOp, 9))}
}

func numericVars(c *ctxDef) []string {
	var out []string
	for _, v := range c.vars {
		if v.local && !v.hasIni {
			continue // holds defaultInitValue: never read
		}
		out = append(out, v.name)
	}
	return out
}

func genLabel(w *sim.World, p *program, c *ctxDef, last bool) labelDef {
	var l labelDef
	num := numericVars(c)
	na := w.Choose(sim.KOp, 3)
	for i := 0; i < na; i++ {
		// any variable but fuel may be assigned
		var targets []string
		for _, v := range c.vars {
			if c.isProc && v.name == "fuel" {
				continue
			}
			targets = append(targets, v.name)
		}
		if len(targets) == 0 {
			break
		}
		l.assigns = append(l.assigns, assign{target: targets[w.Choose(sim.KOp, len(targets))], src: genExpr(w, c, num)})
	}
	mkCall := func(kind termKind) term {
		t := term{kind: kind, proc: w.Choose(sim.KOp, len(p.procs))}
		callee := p.procs[t.proc]
		// ref-able variables of the caller: everything numeric except fuel
		var refable []string
		for _, n := range num {
			if c.isProc && n == "fuel" {
				continue
			}
			// a call in tail position pops the caller's frame first: a reference to one
			// of the caller's own slots would dangle (ill-formed in PlusCal as well), so
			// only references the caller itself received may be forwarded
			if kind == tTailCall && !c.v(n).ref {
				continue
			}
			refable = append(refable, n)
		}
		for _, pv := range callee.vars {
			if pv.local || pv.name == "fuel" {
				continue
			}
			if pv.ref {
				if len(refable) == 0 {
					// nothing to pass by reference: cannot build this call
					return term{kind: tGoto}
				}
				t.args = append(t.args, arg{ref: true, v: refable[w.Choose(sim.KOp, len(refable))]})
			} else {
				t.args = append(t.args, arg{e: genExpr(w, c, num)})
			}
		}
		if !c.isProc {
			t.fuel = int32(w.Choose(sim.KOp, 4))
		}
		return t
	}
	switch {
	case !c.isProc && last:
		if w.Choose(sim.KOp, 2) == 1 {
			l.t = mkCall(tCall) // returns to Done
			if l.t.kind == tGoto {
				l.t = term{kind: tDone}
			}
		} else {
			l.t = term{kind: tDone}
		}
	case c.isProc && last:
		if w.Choose(sim.KOp, 3) == 1 {
			l.t = mkCall(tTailCall)
			if l.t.kind == tGoto {
				l.t = term{kind: tReturn}
			}
		} else {
			l.t = term{kind: tReturn}
		}
	default:
		if w.Choose(sim.KOp, 3) != 0 {
			l.t = mkCall(tCall)
		} else {
			l.t = term{kind: tGoto}
		}
	}
	if w.Choose(sim.KFault, 4) == 1 {
		l.aborts = 1 + w.Choose(sim.KFault, 2)
	}
	return l
}

func generate(w *sim.World) *program {
	p := &program{}
	np := 1 + w.Choose(sim.KCfg, 4)
	for i := 0; i < np; i++ {
		c := &ctxDef{name: fmt.Sprintf("P%d", i), isProc: true}
		c.vars = append(c.vars, varDef{name: "fuel"})
		nparams := w.Choose(sim.KCfg, 3)
		for j := 0; j < nparams; j++ {
			c.vars = append(c.vars, varDef{name: fmt.Sprintf("p%d", j+1), ref: w.Choose(sim.KCfg, 2) == 1})
		}
		nloc := w.Choose(sim.KCfg, 3)
		for j := 0; j < nloc; j++ {
			v := varDef{name: fmt.Sprintf("l%d", j), local: true}
			if w.Choose(sim.KCfg, 3) != 0 {
				v.hasIni = true
				v.ini = int32(100 + w.Choose(sim.KCfg, 50))
			}
			c.vars = append(c.vars, v)
		}
		p.procs = append(p.procs, c)
	}
	p.arch = &ctxDef{name: "A"}
	na := 1 + w.Choose(sim.KCfg, 3)
	for j := 0; j < na; j++ {
		p.arch.vars = append(p.arch.vars, varDef{name: fmt.Sprintf("a%d", j), local: true, hasIni: true, ini: int32(1000 * (j + 1))})
	}
	for _, c := range p.procs {
		nl := 1 + w.Choose(sim.KCfg, 3)
		for l := 0; l < nl; l++ {
			c.labels = append(c.labels, genLabel(w, p, c, l == nl-1))
		}
	}
	nl := 1 + w.Choose(sim.KCfg, 4)
	for l := 0; l < nl; l++ {
		p.arch.labels = append(p.arch.labels, genLabel(w, p, p.arch, l == nl-1))
	}
	return p
}

func (p *program) String() string {
	var sb strings.Builder
	show := func(c *ctxDef) {
		fmt.Fprintf(&sb, "%s(", c.name)
		for _, v := range c.vars {
			switch {
			case v.local && v.hasIni:
				fmt.Fprintf(&sb, " var %s=%d", v.name, v.ini)
			case v.local:
				fmt.Fprintf(&sb, " var %s", v.name)
			case v.ref:
				fmt.Fprintf(&sb, " ref %s", v.name)
			default:
				fmt.Fprintf(&sb, " %s", v.name)
			}
		}
		sb.WriteString(" ) {")
		for i, l := range c.labels {
			fmt.Fprintf(&sb, " b%d:", i)
			for _, a := range l.assigns {
				fmt.Fprintf(&sb, " %s:=%s;", a.target, showExpr(a.src))
			}
			switch l.t.kind {
			case tGoto:
				sb.WriteString(" goto next;")
			case tCall, tTailCall:
				nm := "call"
				if l.t.kind == tTailCall {
					nm = "call+return"
				}
				fuel := "fuel-1"
				if !c.isProc {
					fuel = fmt.Sprint(l.t.fuel)
				}
				fmt.Fprintf(&sb, " if fuel>0 %s P%d(%s", nm, l.t.proc, fuel)
				for _, a := range l.t.args {
					if a.ref {
						fmt.Fprintf(&sb, ", ref %s", a.v)
					} else {
						fmt.Fprintf(&sb, ", %s", showExpr(a.e))
					}
				}
				sb.WriteString(");")
			case tReturn:
				sb.WriteString(" return;")
			case tDone:
				sb.WriteString(" done;")
			}
			if l.aborts > 0 {
				fmt.Fprintf(&sb, " [abort x%d]", l.aborts)
			}
		}
		sb.WriteString(" } ")
	}
	for _, c := range p.procs {
		show(c)
	}
	show(p.arch)
	return sb.String()
}

func showExpr(e expr) string {
	switch e.kind {
	case eConst:
		return fmt.Sprint(e.c)
	case eVar:
		return e.v
	}
	return fmt.Sprintf("%s+%d", e.v, e.c)
}

// ---- reference model: PlusCal call semantics, one slot per variable ----

type frame map[string]tla.Value

type model struct {
	p     *program
	slots map[string]tla.Value // fully qualified name -> value (absent = never created)
	stack []frame              // head first
	pc    string
	depth int
	tail  bool
	rec   bool
}

func newModel(p *program) *model {
	m := &model{p: p, slots: map[string]tla.Value{}, pc: "A.b0"}
	for _, v := range p.arch.vars {
		m.slots["A."+v.name] = tla.MakeNumber(v.ini)
	}
	return m
}

func (m *model) ctxOf(pc string) (*ctxDef, int) {
	i := strings.Index(pc, ".")
	cn, ln := pc[:i], pc[i+1:]
	var c *ctxDef
	if cn == "A" {
		c = m.p.arch
	} else {
		var k int
		fmt.Sscanf(cn, "P%d", &k)
		c = m.p.procs[k]
	}
	var li int
	if _, err := fmt.Sscanf(ln, "b%d", &li); err != nil {
		return c, -1
	}
	return c, li
}

// target resolves a short variable name in context c to the slot it denotes.
func (m *model) target(c *ctxDef, v string) string {
	vd := c.v(v)
	q := c.name + "." + v
	if vd != nil && vd.ref {
		return m.slots[q].AsString()
	}
	return q
}

func (m *model) eval(c *ctxDef, e expr) tla.Value {
	switch e.kind {
	case eConst:
		return tla.MakeNumber(e.c)
	case eVar:
		return m.slots[m.target(c, e.v)]
	default:
		return tla.MakeNumber(m.slots[m.target(c, e.v)].AsNumber() + e.c)
	}
}

func nextLabel(c *ctxDef, li int) string {
	if li+1 < len(c.labels) {
		return fmt.Sprintf("%s.b%d", c.name, li+1)
	}
	if c.isProc {
		return c.name + ".Error"
	}
	return "A.Done"
}

func (m *model) doReturn() {
	f := m.stack[0]
	m.stack = m.stack[1:]
	for k, v := range f {
		if k == ".pc" {
			m.pc = v.AsString()
		} else {
			m.slots[k] = v
		}
	}
}

func (m *model) doCall(callee *ctxDef, retPC string, args []tla.Value) {
	f := frame{".pc": tla.MakeString(retPC)}
	for _, v := range callee.vars {
		q := callee.name + "." + v.name
		f[q] = m.slots[q] // zero Value if never created
	}
	i := 0
	for _, v := range callee.vars {
		if v.local {
			continue
		}
		m.slots[callee.name+"."+v.name] = args[i]
		i++
	}
	for _, v := range callee.vars {
		if !v.local {
			continue
		}
		if v.hasIni {
			m.slots[callee.name+"."+v.name] = tla.MakeNumber(v.ini)
		} else {
			m.slots[callee.name+"."+v.name] = tla.ModuledefaultInitValue
		}
	}
	for _, fr := range m.stack {
		if _, ok := fr[callee.name+".fuel"]; ok {
			m.rec = true // an activation of callee is already on the stack
		}
	}
	m.stack = append([]frame{f}, m.stack...)
	m.pc = callee.name + ".b0"
	if len(m.stack) > m.depth {
		m.depth = len(m.stack)
	}
}

func (m *model) argValues(c *ctxDef, t term) []tla.Value {
	var fuel tla.Value
	if c.isProc {
		fuel = tla.MakeNumber(m.slots[c.name+".fuel"].AsNumber() - 1)
	} else {
		fuel = tla.MakeNumber(t.fuel)
	}
	vals := []tla.Value{fuel}
	for _, a := range t.args {
		if a.ref {
			vals = append(vals, tla.MakeString(m.target(c, a.v)))
		} else {
			vals = append(vals, m.eval(c, a.e))
		}
	}
	return vals
}

func (m *model) fuelPositive(c *ctxDef, t term) bool {
	if c.isProc {
		return m.slots[c.name+".fuel"].AsNumber() > 0
	}
	return t.fuel > 0
}

// step executes the label at m.pc; returns false when the program is done.
func (m *model) step() bool {
	c, li := m.ctxOf(m.pc)
	if li < 0 {
		return false
	}
	l := c.labels[li]
	for _, a := range l.assigns {
		v := m.eval(c, a.src)
		m.slots[m.target(c, a.target)] = v
	}
	switch l.t.kind {
	case tGoto:
		m.pc = nextLabel(c, li)
	case tDone:
		m.pc = "A.Done"
	case tReturn:
		m.doReturn()
	case tCall:
		if m.fuelPositive(c, l.t) {
			m.doCall(m.p.procs[l.t.proc], nextLabel(c, li), m.argValues(c, l.t))
		} else {
			m.pc = nextLabel(c, li)
		}
	case tTailCall:
		if m.fuelPositive(c, l.t) {
			args := m.argValues(c, l.t)
			m.tail = true
			ret := m.stack[0][".pc"].AsString()
			m.doReturn()
			m.doCall(m.p.procs[l.t.proc], ret, args)
		} else {
			m.doReturn()
		}
	}
	return true
}

// ---- the same program as distsys tables, in the code generator's conventions ----

type runner struct {
	w        *sim.World
	p        *program
	attempts map[string]int // pc -> failed attempts so far at this visit
	visit    int
	aborting bool
	trace    []string
}

func (r *runner) handle(iface distsys.ArchetypeInterface, c *ctxDef, v string) (distsys.ArchetypeResourceHandle, error) {
	vd := c.v(v)
	q := c.name + "." + v
	if vd.ref {
		return iface.RequireArchetypeResourceRef(q)
	}
	return iface.RequireArchetypeResource(q), nil
}

func (r *runner) read(iface distsys.ArchetypeInterface, c *ctxDef, v string) (tla.Value, error) {
	h, err := r.handle(iface, c, v)
	if err != nil {
		return tla.Value{}, err
	}
	return iface.Read(h, nil)
}

func (r *runner) eval(iface distsys.ArchetypeInterface, c *ctxDef, e expr) (tla.Value, error) {
	switch e.kind {
	case eConst:
		return tla.MakeNumber(e.c), nil
	case eVar:
		return r.read(iface, c, e.v)
	default:
		v, err := r.read(iface, c, e.v)
		if err != nil {
			return v, err
		}
		return tla.ModulePlusSymbol(v, tla.MakeNumber(e.c)), nil
	}
}

func (r *runner) args(iface distsys.ArchetypeInterface, c *ctxDef, t term) ([]tla.Value, error) {
	var vals []tla.Value
	if c.isProc {
		f, err := r.read(iface, c, "fuel")
		if err != nil {
			return nil, err
		}
		vals = append(vals, tla.ModuleMinusSymbol(f, tla.MakeNumber(1)))
	} else {
		vals = append(vals, tla.MakeNumber(t.fuel))
	}
	for _, a := range t.args {
		if a.ref {
			if c.v(a.v).ref {
				vals = append(vals, iface.ReadArchetypeResourceLocal(c.name+"."+a.v))
			} else {
				vals = append(vals, tla.MakeString(c.name+"."+a.v))
			}
		} else {
			v, err := r.eval(iface, c, a.e)
			if err != nil {
				return nil, err
			}
			vals = append(vals, v)
		}
	}
	return vals, nil
}

func (r *runner) body(c *ctxDef, li int) func(distsys.ArchetypeInterface) error {
	l := c.labels[li]
	name := fmt.Sprintf("%s.b%d", c.name, li)
	return func(iface distsys.ArchetypeInterface) error {
		err := func() error {
			for _, a := range l.assigns {
				v, err := r.eval(iface, c, a.src)
				if err != nil {
					return err
				}
				h, err := r.handle(iface, c, a.target)
				if err != nil {
					return err
				}
				if err := iface.Write(h, nil, v); err != nil {
					return err
				}
			}
			fuelPos := func() (bool, error) {
				if !c.isProc {
					return l.t.fuel > 0, nil
				}
				f, err := r.read(iface, c, "fuel")
				if err != nil {
					return false, err
				}
				return f.AsNumber() > 0, nil
			}
			switch l.t.kind {
			case tGoto:
				return iface.Goto(nextLabel(c, li))
			case tDone:
				return iface.Goto("A.Done")
			case tReturn:
				return iface.Return()
			case tCall:
				pos, err := fuelPos()
				if err != nil {
					return err
				}
				if !pos {
					return iface.Goto(nextLabel(c, li))
				}
				vals, err := r.args(iface, c, l.t)
				if err != nil {
					return err
				}
				return iface.Call(r.p.procs[l.t.proc].name, nextLabel(c, li), vals...)
			case tTailCall:
				pos, err := fuelPos()
				if err != nil {
					return err
				}
				if !pos {
					return iface.Return()
				}
				vals, err := r.args(iface, c, l.t)
				if err != nil {
					return err
				}
				return iface.TailCall(r.p.procs[l.t.proc].name, vals...)
			}
			return nil
		}()
		if err != nil {
			return err
		}
		// fault: the attempt did all its work (including the call/return) and fails now
		if r.attempts[name] < l.aborts {
			r.attempts[name]++
			r.aborting = true
			r.w.Fault("abort_after_work")
			if l.t.kind == tCall || l.t.kind == tTailCall {
				r.w.Probe("abort_after_call")
			}
			if l.t.kind == tReturn {
				r.w.Probe("abort_after_return")
			}
			return distsys.ErrCriticalSectionAborted
		}
		r.attempts[name] = 0
		return nil
	}
}

func (r *runner) tables() distsys.MPCalArchetype {
	var secs []distsys.MPCalCriticalSection
	var procs []distsys.MPCalProc
	for _, c := range r.p.procs {
		c := c
		for li := range c.labels {
			secs = append(secs, distsys.MPCalCriticalSection{Name: fmt.Sprintf("%s.b%d", c.name, li), Body: r.body(c, li)})
		}
		secs = append(secs, distsys.MPCalCriticalSection{Name: c.name + ".Error", Body: func(distsys.ArchetypeInterface) error { return distsys.ErrProcedureFallthrough }})
		var sv []string
		for _, v := range c.vars {
			sv = append(sv, c.name+"."+v.name)
		}
		procs = append(procs, distsys.MPCalProc{
			Name: c.name, Label: c.name + ".b0", StateVars: sv,
			PreAmble: func(iface distsys.ArchetypeInterface) error {
				for _, v := range c.vars {
					if !v.local {
						continue
					}
					h := iface.RequireArchetypeResource(c.name + "." + v.name)
					val := tla.ModuledefaultInitValue
					if v.hasIni {
						val = tla.MakeNumber(v.ini)
					}
					if err := iface.Write(h, nil, val); err != nil {
						return err
					}
				}
				return nil
			},
		})
	}
	a := r.p.arch
	for li := range a.labels {
		secs = append(secs, distsys.MPCalCriticalSection{Name: fmt.Sprintf("A.b%d", li), Body: r.body(a, li)})
	}
	secs = append(secs, distsys.MPCalCriticalSection{Name: "A.Done", Body: func(distsys.ArchetypeInterface) error { return distsys.ErrDone }})
	return distsys.MPCalArchetype{
		Name: "A", Label: "A.b0",
		JumpTable: distsys.MakeMPCalJumpTable(secs...),
		ProcTable: distsys.MakeMPCalProcTable(procs...),
		PreAmble: func(iface distsys.ArchetypeInterface) {
			for _, v := range a.vars {
				iface.EnsureArchetypeResourceLocal("A."+v.name, tla.MakeNumber(v.ini))
			}
		},
	}
}

// gate observes the state at the start of every attempt (the previous attempt has
// committed or aborted by then) through the public fairness-counter seam.
type gate struct {
	inner distsys.FairnessCounter
	fn    func(pc string)
}

func (g *gate) BeginCriticalSection(pc string)                  { g.inner.BeginCriticalSection(pc); g.fn(pc) }
func (g *gate) NextFairnessCounter(id string, c uint) uint      { return g.inner.NextFairnessCounter(id, c) }

func render(v tla.Value) string {
	if v == (tla.Value{}) {
		return "<unset>"
	}
	return v.String()
}

func same(a, b tla.Value) bool {
	az, bz := a == (tla.Value{}), b == (tla.Value{})
	if az || bz {
		return az && bz
	}
	return a.Equal(b) && a.String() == b.String()
}

func scenario(w *sim.World) {
	p := generate(w)
	w.Event("program %s", p.String())
	m := newModel(p)
	r := &runner{w: w, p: p, attempts: map[string]int{}}
	arch := r.tables()
	var ctx *distsys.MPCalContext
	steps := 0
	compare := func(when string) {
		iface := ctx.IFace()
		pc := iface.ReadArchetypeResourceLocal(".pc").AsString()
		if pc != m.pc {
			w.Fail("pc_mismatch", "%s: pc is %s, PlusCal semantics give %s | %s", when, pc, m.pc, p)
		}
		st := iface.ReadArchetypeResourceLocal(".stack")
		tup := st.AsTuple()
		if tup.Len() != len(m.stack) {
			w.Fail("stack_depth", "%s at %s: stack depth %d, model %d | %s", when, pc, tup.Len(), len(m.stack), p)
		}
		for i := 0; i < tup.Len(); i++ {
			fn := tup.Get(i).AsFunction()
			mf := m.stack[i]
			if fn.Len() != len(mf) {
				w.Fail("frame_shape", "%s at %s: frame %d has %d entries, model %d | %s", when, pc, i, fn.Len(), len(mf), p)
			}
			keys := make([]string, 0, len(mf))
			for k := range mf {
				keys = append(keys, k)
			}
			sort.Strings(keys)
			for _, k := range keys {
				gv, ok := fn.Get(tla.MakeString(k))
				if !ok {
					w.Fail("frame_shape", "%s at %s: frame %d lacks %s | %s", when, pc, i, k, p)
				}
				if !same(gv, mf[k]) {
					w.Fail("frame_value", "%s at %s: frame %d saves %s = %s, PlusCal semantics save %s | %s", when, pc, i, k, render(gv), render(mf[k]), p)
				}
			}
		}
		names := make([]string, 0, len(m.slots))
		for k := range m.slots {
			names = append(names, k)
		}
		sort.Strings(names)
		for _, k := range names {
			gv := iface.ReadArchetypeResourceLocal(k)
			if !same(gv, m.slots[k]) {
				w.Fail("variable_value", "%s at %s: variable %s = %s, PlusCal semantics give %s | %s", when, pc, k, render(gv), render(m.slots[k]), p)
			}
		}
		w.Count("comparisons", 1)
	}
	first := true
	g := &gate{inner: distsys.MakeRoundRobinFairnessCounter(), fn: func(pc string) {
		if first {
			first = false
			compare("initially")
			return
		}
		if r.aborting {
			r.aborting = false
			compare("after an aborted attempt")
			return
		}
		// previous attempt committed
		if !m.step() {
			w.Fail("ran_past_done", "a section committed although the model had finished")
		}
		steps++
		compare(fmt.Sprintf("after committed step %d", steps))
		if steps > 3000 {
			w.Infra("C04 program did not terminate within 3000 steps: %s", p)
			ctx.Stop()
		}
	}}
	ctx = distsys.NewMPCalContext(tla.MakeString("self"), arch, distsys.SetFairnessCounter(g))
	var runErr error
	var pan any
	func() {
		defer func() {
			if x := recover(); x != nil {
				pan = x
			}
		}()
		runErr = ctx.Run()
	}()
	if w.Failed() {
		return
	}
	if pan != nil {
		w.Fail("panic", "Run panicked at model pc %s: %v | %s", m.pc, pan, p)
	}
	if runErr != nil {
		w.Fail("run_error", "Run returned %v at model pc %s | %s", runErr, m.pc, p)
	}
	// the last committed step is not followed by another BeginCriticalSection when it
	// jumps to Done... it is: Done's body runs as an attempt. Finish the model.
	for m.pc != "A.Done" {
		w.Fail("early_end", "Run ended at model pc %s | %s", m.pc, p)
	}
	if m.depth >= 3 {
		w.Probe("depth_ge_3")
	}
	if m.depth >= 1 {
		w.Probe("called")
	}
	if m.tail {
		w.Probe("tailcall_executed")
	}
	if m.rec {
		w.Probe("recursion_executed")
	}
	w.Count("steps", steps)
}

func configure(seed uint64, tier string) sim.RunConfig {
	return sim.RunConfig{MaxSteps: 100000}
}

func TestWorker(t *testing.T) {
	harness.Worker(t, harness.Spec{
		Property:  "C04",
		Configure: configure,
		Scenario:  scenario,
		NonTrivial: func(r *sim.Result) bool {
			return r.Probes["called"] > 0
		},
		Describe: func(r *sim.Result) any {
			return map[string]any{"events": r.Events, "probes": r.Probes, "faults": r.Faults, "counts": map[string]int{"steps": r.Counts["steps"], "comparisons": r.Counts["comparisons"]}}
		},
	})
}
