// C12 — CRDT data types are semilattices with their declared read semantics.
// Replica-level simulation: 2-5 replicas of GCounter / AWORSet / LWWSet apply local
// updates and exchange full states through a simulated transport that reorders,
// duplicates, delays and drops, every state passing through encoding/gob. Reference
// models are executed alongside on the set of update operations each replica knows.
package c12

import (
	"bytes"
	"encoding/gob"
	"fmt"
	"sort"
	"strings"
	"testing"
	"time"

	"github.com/DistCompiler/pgo/distsys/resources"
	"github.com/DistCompiler/pgo/distsys/tla"

	"verif/harness"
	"verif/sim"
)

const (
	kGCounter = iota
	kAWORSet
	kLWWSet
)

var kindNames = []string{"GCounter", "AWORSet", "LWWSet"}

type op struct {
	id      int
	replica int
	add     bool
	elem    int
	amount  int32
	at      time.Duration // simulated time (LWW)
	seen    map[int]bool  // AWORSet remove: add-ops of elem observed at the removing replica
	before  map[int]bool  // updates known to the issuing replica when it issued this one
}

type replica struct {
	id    tla.Value
	state resources.CRDTValue
	known map[int]bool
}

type msg struct {
	from, to int
	bytes    []byte
	known    map[int]bool
}

type wire struct{ V resources.CRDTValue }

func encode(v resources.CRDTValue) ([]byte, error) {
	var buf bytes.Buffer
	err := gob.NewEncoder(&buf).Encode(&wire{V: v})
	return buf.Bytes(), err
}

func decode(b []byte) (resources.CRDTValue, error) {
	var x wire
	err := gob.NewDecoder(bytes.NewReader(b)).Decode(&x)
	return x.V, err
}

func copyKnown(k map[int]bool) map[int]bool {
	c := make(map[int]bool, len(k))
	for i := range k {
		c[i] = true
	}
	return c
}

func knownKey(k map[int]bool) string {
	ids := make([]int, 0, len(k))
	for i := range k {
		ids = append(ids, i)
	}
	sort.Ints(ids)
	return fmt.Sprint(ids)
}

type sys struct {
	w    *sim.World
	kind int
	reps []*replica
	ops  []*op
	log  []string
}

// concurrentAddRemove reports whether the history so far contains an add and a remove
// of the same element that are concurrent (neither happened before the other).
func (s *sys) concurrentAddRemove() bool {
	for _, a := range s.ops {
		if !a.add {
			continue
		}
		for _, r := range s.ops {
			if r.add || r.elem != a.elem {
				continue
			}
			if !r.seen[a.id] && !a.before[r.id] {
				return true
			}
		}
	}
	return false
}

// rule names the oracle rule; AWORSet failures in histories with a concurrent add and
// remove of one element are a separate class (see known_findings.json).
func (s *sys) rule(base string) string {
	r := base + "_" + kindNames[s.kind]
	if s.kind == kAWORSet && s.concurrentAddRemove() {
		r += "_after_concurrent_add_remove"
	}
	return r
}

func (s *sys) note(format string, a ...any) {
	if len(s.log) < 200 {
		s.log = append(s.log, fmt.Sprintf(format, a...))
	}
	s.w.Event(format, a...)
}

// expected is the reference model: the value a replica knowing exactly `known` must read.
func (s *sys) expected(known map[int]bool) string {
	switch s.kind {
	case kGCounter:
		var sum int32
		for _, o := range s.ops {
			if known[o.id] {
				sum += o.amount
			}
		}
		return tla.MakeNumber(sum).String()
	case kAWORSet:
		in := map[int]bool{}
		for _, a := range s.ops {
			if !known[a.id] || !a.add {
				continue
			}
			observed := false
			for _, r := range s.ops {
				if known[r.id] && !r.add && r.elem == a.elem && r.seen[a.id] {
					observed = true
					break
				}
			}
			if !observed {
				in[a.elem] = true
			}
		}
		return renderSet(in)
	default:
		latest := map[int]*op{}
		for _, o := range s.ops {
			if !known[o.id] {
				continue
			}
			if l, ok := latest[o.elem]; !ok || o.at > l.at {
				latest[o.elem] = o
			}
		}
		in := map[int]bool{}
		for e, o := range latest {
			if o.add {
				in[e] = true
			}
		}
		return renderSet(in)
	}
}

func elemVal(e int) tla.Value { return tla.MakeString(fmt.Sprintf("e%d", e)) }

func renderSet(in map[int]bool) string {
	var vs []tla.Value
	var es []int
	for e := range in {
		es = append(es, e)
	}
	sort.Ints(es)
	for _, e := range es {
		vs = append(vs, elemVal(e))
	}
	return canonSet(tla.MakeSet(vs...))
}

// canonSet renders a set value independently of tla's own String: sorted element strings.
func canonSet(v tla.Value) string {
	if !v.IsSet() {
		return v.String()
	}
	var xs []string
	it := v.AsSet().Iterator()
	for !it.Done() {
		k, _, _ := it.Next()
		xs = append(xs, k.String())
	}
	sort.Strings(xs)
	return "{" + strings.Join(xs, ",") + "}"
}

func (s *sys) read(v resources.CRDTValue) string {
	r := v.Read()
	if s.kind == kGCounter {
		return r.String()
	}
	return canonSet(r)
}

func safely(w *sim.World, what string, f func()) {
	defer func() {
		if x := recover(); x != nil {
			w.Fail("panic", "%s panicked: %v", what, x)
		}
	}()
	f()
}

func scenario(w *sim.World) {
	s := &sys{w: w, kind: w.Choose(sim.KCfg, 3)}
	n := 2 + w.Choose(sim.KCfg, 4)
	nElems := 1 + w.Choose(sim.KCfg, 4)
	nSteps := 4 + w.Choose(sim.KCfg, 40)
	var proto resources.CRDTValue
	switch s.kind {
	case kGCounter:
		proto = resources.GCounter{}
	case kAWORSet:
		proto = resources.AWORSet{}
	default:
		proto = resources.LWWSet{}
	}
	for i := 0; i < n; i++ {
		s.reps = append(s.reps, &replica{id: tla.MakeString(fmt.Sprintf("r%d", i)), state: proto.Init(), known: map[int]bool{}})
	}
	w.Event("kind=%s replicas=%d elems=%d steps=%d", kindNames[s.kind], n, nElems, nSteps)
	var inflight []*msg
	var pool []resources.CRDTValue // states reached, for the algebraic laws
	poolKnown := []map[int]bool{}
	addPool := func(v resources.CRDTValue, k map[int]bool) {
		if len(pool) < 24 {
			pool = append(pool, v)
			poolKnown = append(poolKnown, copyKnown(k))
		}
	}
	check := func(r *replica, when string) {
		var got string
		safely(w, "Read", func() { got = s.read(r.state) })
		want := s.expected(r.known)
		if got != want {
			w.Fail(s.rule("read_semantics"), "%s: replica %s reads %s, reference model over its %d known updates gives %s; history: %s", when, r.id, got, len(r.known), want, strings.Join(s.log, " | "))
		}
		w.Count("reads_checked", 1)
	}
	for step := 0; step < nSteps; step++ {
		act := w.Choose(sim.KOp, 10)
		switch {
		case act < 4: // local update
			ri := w.Choose(sim.KOp, n)
			r := s.reps[ri]
			o := &op{id: len(s.ops), replica: ri, before: copyKnown(r.known)}
			var val tla.Value
			if s.kind == kGCounter {
				o.amount = int32(w.Choose(sim.KOp, 6)) // 0 is a legal increment
				o.add = true
				val = tla.MakeNumber(o.amount)
			} else {
				o.elem = w.Choose(sim.KOp, nElems)
				o.add = w.Choose(sim.KOp, 3) != 0
				cmd := 1
				if !o.add {
					cmd = 2
					o.seen = map[int]bool{}
					for _, a := range s.ops {
						if r.known[a.id] && a.add && a.elem == o.elem {
							o.seen[a.id] = true
						}
					}
				}
				val = tla.MakeRecord([]tla.RecordField{
					{Key: tla.MakeString("cmd"), Value: tla.MakeNumber(int32(cmd))},
					{Key: tla.MakeString("elem"), Value: elemVal(o.elem)},
				})
			}
			// distinct timestamps: the clock moves before every update
			w.Sleep(time.Duration(1+w.Choose(sim.KOp, 5)) * time.Millisecond)
			o.at = w.Now()
			before := r.state
			safely(w, "Write", func() { r.state = r.state.Write(r.id, val) })
			s.ops = append(s.ops, o)
			r.known[o.id] = true
			s.note("r%d %s (op %d) => %v", ri, describe(s.kind, o), o.id, r.state)
			check(r, "after local update")
			// inflation: merge(before, after) == after (observationally)
			var m resources.CRDTValue
			safely(w, "Merge", func() { m = before.Merge(r.state) })
			if s.read(m) != s.read(r.state) {
				w.Fail(s.rule("update_not_inflation"), "merge(s, write(s)) reads %s but write(s) reads %s; history: %s", s.read(m), s.read(r.state), strings.Join(s.log, " | "))
			}
			addPool(r.state, r.known)
		case act < 7: // send state
			from := w.Choose(sim.KOp, n)
			to := (from + 1 + w.Choose(sim.KOp, n-1)) % n
			b, err := encode(s.reps[from].state)
			if err != nil {
				w.Fail("gob_encode", "cannot encode state of r%d: %v", from, err)
			}
			inflight = append(inflight, &msg{from: from, to: to, bytes: b, known: copyKnown(s.reps[from].known)})
		case act < 9: // deliver some in-flight message (any order), maybe keep it for duplication
			if len(inflight) == 0 {
				continue
			}
			i := w.Choose(sim.KNet, len(inflight))
			m := inflight[i]
			dup := w.Choose(sim.KNet, 4) == 1
			if !dup {
				inflight = append(inflight[:i], inflight[i+1:]...)
			} else {
				w.Fault("duplicate")
			}
			if i != 0 {
				w.Fault("reorder")
			}
			v, err := decode(m.bytes)
			if err != nil {
				w.Fail("gob_decode", "cannot decode state from r%d: %v", m.from, err)
			}
			r := s.reps[m.to]
			safely(w, "Merge", func() { r.state = r.state.Merge(v) })
			for k := range m.known {
				r.known[k] = true
			}
			s.note("deliver r%d->r%d (%d updates %s) state=%v => %v", m.from, m.to, len(m.known), knownKey(m.known), v, r.state)
			check(r, "after merge")
			addPool(r.state, r.known)
		default: // drop
			if len(inflight) > 0 {
				i := w.Choose(sim.KNet, len(inflight))
				inflight = append(inflight[:i], inflight[i+1:]...)
				w.Fault("drop")
			}
		}
		if w.Failed() {
			return
		}
	}
	// replicas with equal knowledge read equal values (whatever the delivery order)
	byKnown := map[string]*replica{}
	for _, r := range s.reps {
		k := knownKey(r.known)
		if o, ok := byKnown[k]; ok {
			if s.read(o.state) != s.read(r.state) {
				w.Fail(s.rule("equal_knowledge_diverges"), "replicas %s and %s received the same updates but read %s vs %s", o.id, r.id, s.read(o.state), s.read(r.state))
			}
			w.Probe("equal_knowledge_pair")
		}
		byKnown[k] = r
	}
	// algebraic laws on reached states, judged observationally: by Read now and by Read
	// after the same continuation (merge with further reached states) on both sides
	if len(pool) >= 2 {
		nLaw := 6
		for t := 0; t < nLaw; t++ {
			a := pool[w.Choose(sim.KOp, len(pool))]
			bi := w.Choose(sim.KOp, len(pool))
			b := pool[bi]
			ci := w.Choose(sim.KOp, len(pool))
			c := pool[ci]
			di := w.Choose(sim.KOp, len(pool))
			d := pool[di]
			var ab, ba, abc1, abc2, aa resources.CRDTValue
			safely(w, "Merge", func() {
				ab, ba = a.Merge(b), b.Merge(a)
				abc1, abc2 = a.Merge(b).Merge(c), a.Merge(b.Merge(c))
				aa = a.Merge(a)
			})
			cmp := func(rule string, x, y resources.CRDTValue, what string) {
				if s.read(x) != s.read(y) {
					w.Fail(s.rule(rule), "%s: reads %s vs %s; history: %s", what, s.read(x), s.read(y), strings.Join(s.log, " | "))
				}
				var xd, yd resources.CRDTValue
				safely(w, "Merge", func() { xd, yd = x.Merge(d), y.Merge(d) })
				if s.read(xd) != s.read(yd) {
					w.Fail(s.rule(rule), "%s: equal reads now, but after merging the same further state they read %s vs %s; history: %s", what, s.read(xd), s.read(yd), strings.Join(s.log, " | "))
				}
				var dx, dy resources.CRDTValue
				safely(w, "Merge", func() { dx, dy = d.Merge(x), d.Merge(y) })
				if s.read(dx) != s.read(dy) {
					w.Fail(s.rule(rule), "%s: equal reads now, but merged into the same further state they read %s vs %s; history: %s", what, s.read(dx), s.read(dy), strings.Join(s.log, " | "))
				}
			}
			cmp("merge_not_commutative", ab, ba, "merge(a,b) vs merge(b,a)")
			cmp("merge_not_associative", abc1, abc2, "merge(merge(a,b),c) vs merge(a,merge(b,c))")
			cmp("merge_not_idempotent", aa, a, "merge(a,a) vs a")
			// merged state reads what the model gives for the union of knowledge
			union := copyKnown(poolKnown[bi])
			for k := range poolKnown[ci] {
				union[k] = true
			}
			var bc resources.CRDTValue
			safely(w, "Merge", func() { bc = b.Merge(c) })
			if got, want := s.read(bc), s.expected(union); got != want {
				w.Fail(s.rule("merge_semantics"), "merge of two reached states reads %s, reference model over the union of their updates gives %s; history: %s", got, want, strings.Join(s.log, " | "))
			}
			// gob round trip preserves the state observationally
			bb, err := encode(a)
			if err != nil {
				w.Fail("gob_encode", "%v", err)
			}
			a2, err := decode(bb)
			if err != nil {
				w.Fail("gob_decode", "%v", err)
			}
			cmp("gob_changes_state", a, a2, "state vs gob round trip")
			w.Count("law_checks", 1)
		}
	}
	w.Probe("kind_" + kindNames[s.kind])
	if s.kind == kAWORSet {
		if s.concurrentAddRemove() {
			w.Probe("aworset_with_concurrent_add_remove")
		} else {
			w.Probe("aworset_without_concurrent_add_remove")
		}
	}
	removes := 0
	for _, o := range s.ops {
		if !o.add {
			removes++
		}
	}
	if removes > 0 {
		w.Probe("has_remove")
	}
	w.Count("updates", len(s.ops))
}

func describe(kind int, o *op) string {
	if kind == kGCounter {
		return fmt.Sprintf("inc %d", o.amount)
	}
	if o.add {
		return fmt.Sprintf("add e%d @%v", o.elem, o.at)
	}
	return fmt.Sprintf("rem e%d @%v", o.elem, o.at)
}

func TestWorker(t *testing.T) {
	harness.Worker(t, harness.Spec{
		Property:  "C12",
		Configure: func(seed uint64, tier string) sim.RunConfig { return sim.RunConfig{MaxSteps: 100000} },
		Scenario:  scenario,
		NonTrivial: func(r *sim.Result) bool {
			return r.Counts["updates"] >= 2 && (r.Faults["reorder"] > 0 || r.Faults["duplicate"] > 0 || r.Counts["law_checks"] > 0)
		},
		Describe: func(r *sim.Result) any {
			return map[string]any{"events": r.Events[:min(len(r.Events), 2)], "probes": r.Probes, "faults": r.Faults, "updates": r.Counts["updates"], "reads_checked": r.Counts["reads_checked"]}
		},
	})
}
