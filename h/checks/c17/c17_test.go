// C17 — Run/Stop/Close lifecycle: stops cleanly, never deadlocks, closes once.
package c17

import (
	"strings"
	"errors"
	"fmt"
	"testing"
	"time"

	"github.com/DistCompiler/pgo/distsys"
	"github.com/DistCompiler/pgo/distsys/resources"
	"github.com/DistCompiler/pgo/distsys/tla"

	"verif/harness"
	"verif/sim"
)

var errResource = errors.New("injected resource failure")

// cell is a value resource that counts lifecycle calls.
type cell struct {
	distsys.ArchetypeResourceLeafMixin
	w        *sim.World
	name     string
	val, old tla.Value
	closes   int
	closeDur time.Duration
	closedAt uint64
	commits  int
	lastCommitSeq uint64
	failRead bool
	reads    int
	pace     time.Duration
	st       *state
}

type state struct {
	w             *sim.World
	lastCommitSeq uint64
	commits       int
	sections      int
	firstStopRet  uint64 // seq at which the first Stop call returned (0 = none)
	cells         []*cell
}

func (c *cell) Abort(distsys.ArchetypeInterface) chan struct{} { c.val = c.old; return nil }
func (c *cell) PreCommit(distsys.ArchetypeInterface) chan error { return nil }
func (c *cell) Commit(distsys.ArchetypeInterface) chan struct{} {
	c.old = c.val
	c.commits++
	s := c.w.Seq()
	c.lastCommitSeq = s
	c.st.lastCommitSeq = s
	c.st.commits++
	if c.closes > 0 {
		c.w.Fail("commit_after_close", "resource %s committed after it was closed", c.name)
	}
	if c.st.firstStopRet != 0 {
		c.w.Fail("commit_after_stop", "resource %s committed (seq %d) after a Stop call had returned (seq %d)", c.name, s, c.st.firstStopRet)
	}
	return nil
}
func (c *cell) ReadValue(distsys.ArchetypeInterface) (tla.Value, error) {
	if c.closes > 0 {
		c.w.Fail("use_after_close", "resource %s read after Close", c.name)
	}
	c.reads++
	if c.pace > 0 {
		c.w.Sleep(c.pace)
	}
	if c.failRead {
		return tla.Value{}, errResource
	}
	return c.val, nil
}
func (c *cell) WriteValue(_ distsys.ArchetypeInterface, v tla.Value) error {
	if c.closes > 0 {
		c.w.Fail("use_after_close", "resource %s written after Close", c.name)
	}
	c.val = v
	return nil
}
func (c *cell) Close() error {
	c.closes++
	c.closedAt = c.w.Seq()
	if c.closeDur > 0 {
		c.w.Sleep(c.closeDur)
	}
	return nil
}

var closeDurs = []time.Duration{0, 0, time.Millisecond, 100 * time.Millisecond, time.Second, 5 * time.Second}
var delays = []time.Duration{0, time.Microsecond, 50 * time.Microsecond, time.Millisecond, 20 * time.Millisecond, 500 * time.Millisecond, 2 * time.Second, 6 * time.Second}

const (
	endDone = iota
	endLoop
	endAssert
	endErrorLabel
	endResErr
	nEndings
)

var endNames = []string{"done", "loop-until-stop", "assertion", "error-label", "resource-error"}

func scenario(w *sim.World) {
	st := &state{w: w}
	nCells := 1 + w.Choose(sim.KCfg, 4)
	nLabels := 1 + w.Choose(sim.KCfg, 4)
	ending := w.Choose(sim.KCfg, nEndings)
	failAt := w.Choose(sim.KCfg, nLabels)
	useMap := w.Choose(sim.KCfg, 3) // 0 none, 1 IncMap, 2 HashMap-like via IncMap with 2 indices
	nStops := w.Choose(sim.KCfg, 6)
	runDelay := delays[w.Choose(sim.KCfg, 5)]
	secondRun := w.Choose(sim.KCfg, 4) == 1
	nested := w.Choose(sim.KCfg, 4) == 1

	var cfgs []distsys.MPCalContextConfigFn
	names := []string{}
	for i := 0; i < nCells; i++ {
		c := &cell{w: w, st: st, name: fmt.Sprintf("r%d", i), val: tla.MakeNumber(0), old: tla.MakeNumber(0), closeDur: closeDurs[w.Choose(sim.KCfg, len(closeDurs))]}
		st.cells = append(st.cells, c)
		names = append(names, c.name)
		cfgs = append(cfgs, distsys.EnsureArchetypeRefParam(c.name, c))
	}
	if ending == endLoop {
		st.cells[0].pace = []time.Duration{100 * time.Microsecond, time.Millisecond, 10 * time.Millisecond}[w.Choose(sim.KCfg, 3)]
	}
	if ending == endResErr {
		// the failing read happens at label failAt on cell 0 (armed below)
	}
	var mapCells []*cell
	if useMap > 0 {
		im := resources.NewIncMap(func(index tla.Value) distsys.ArchetypeResource {
			c := &cell{w: w, st: st, name: "m[" + index.String() + "]", val: tla.MakeNumber(0), old: tla.MakeNumber(0), closeDur: closeDurs[w.Choose(sim.KCfg, len(closeDurs))]}
			mapCells = append(mapCells, c)
			st.cells = append(st.cells, c)
			return c
		})
		cfgs = append(cfgs, distsys.EnsureArchetypeRefParam("m", im))
	}
	var nestedInner []*cell
	// serverMode: the first nested archetype speaks the resource protocol (read/write/pre-commit/
	// commit/abort requests and acks), the outer program reads the nested resource in every
	// section, and the server may end on its own (reach Done) between two outer sections
	serverMode := nested && w.Choose(sim.KCfg, 2) == 1
	serveSections := 0 // 0 = serves until stopped; n = ends on its own after n outer sections (commit or abort acks)
	serverEnded := false
	if serverMode && w.Choose(sim.KCfg, 2) == 1 {
		serveSections = 1 + w.Choose(sim.KCfg, 3)
	}
	// The nested resource crashes the process on purpose (panic) when it has to abort or commit
	// a section after one of its nested archetypes has ended ("we assume that all nested
	// contexts must be running for resource API requests to be serviced"): that is outside
	// what the property promises. It can only happen here when the server ended on its own
	// while a request of the outer section was timing out.
	w.PanicOK = func(r any) bool {
		msg := fmt.Sprint(r)
		if serverEnded && strings.Contains(msg, resources.ErrNestedArchetypeStopped.Error()) {
			return true
		}
		// Likewise deliberate ("we should crash immediately"): the resource's reaction to what it
		// takes for a protocol violation of the nested system. With a request that timed out
		// (server stalled beyond the 100 ms request time-out) its late ack can arrive after the
		// abort request has gone out, which Abort does not expect. Not a lifecycle matter;
		// noted in DESIGN.md as an observation.
		return serverMode && strings.Contains(msg, resources.ErrNestedArchetypeProtocol.Error())
	}
	if nested {
		// a nested-archetype resource whose inner context owns counting cells too; the
		// inner archetype just waits on its input channel (never used by the outer
		// program), so only its lifecycle is exercised
		nInner := 1 + w.Choose(sim.KCfg, 3)
		endsAfter := make([]int, nInner) // 0 = runs until stopped; n = ends on its own after n attempts
		for k := range endsAfter {
			if w.Choose(sim.KCfg, 3) == 1 {
				endsAfter[k] = 1 + w.Choose(sim.KCfg, 3)
			}
		}
		nres := resources.NewNested(func(sendCh chan<- tla.Value, receiveCh <-chan tla.Value) []*distsys.MPCalContext {
			var ctxs []*distsys.MPCalContext
			for k := 0; k < nInner; k++ {
				k := k
				// inner cells belong to other contexts: the "no commit after Stop returned" rule is about
				// the stopped (outer) context only; inner cells are still checked against their own Close
				ic := &cell{w: w, st: &state{w: w}, name: fmt.Sprintf("nested.inner%d", k), val: tla.MakeNumber(0), old: tla.MakeNumber(0), closeDur: closeDurs[w.Choose(sim.KCfg, len(closeDurs))]}
				ic.pace = 10 * time.Millisecond
				nestedInner = append(nestedInner, ic)
				in := resources.NewInputChan(receiveCh, resources.WithInputChanReadTimeout(50*time.Millisecond))
				att := 0
				served := 0
				if serverMode {
					endsAfter[k] = 0 // in server mode only the server itself may end on its own
				}
				innerArch := distsys.MPCalArchetype{
					Name: "I", Label: "I.l0",
					RequiredRefParams: []string{"I.in", "I.c", "I.out"},
					JumpTable: distsys.MakeMPCalJumpTable(
						distsys.MPCalCriticalSection{Name: "I.l0", Body: func(iface distsys.ArchetypeInterface) error {
							in, err := iface.RequireArchetypeResourceRef("I.in")
							if err != nil {
								return err
							}
							c, err := iface.RequireArchetypeResourceRef("I.c")
							if err != nil {
								return err
							}
							if _, err := iface.Read(c, nil); err != nil {
								return err
							}
							att++
							if serverMode && k == 0 {
								out, err := iface.RequireArchetypeResourceRef("I.out")
								if err != nil {
									return err
								}
								req, err := iface.Read(in, nil)
								if err != nil {
									return err
								}
								S := tla.MakeString
								tpe := req.ApplyFunction(S("tpe")).AsString()
								ack := map[string]string{"read_req": "read_ack", "write_req": "write_ack", "precommit_req": "precommit_ack", "commit_req": "commit_ack", "abort_req": "abort_ack"}[tpe]
								resp := tla.MakeRecord([]tla.RecordField{{Key: S("tpe"), Value: S(ack)}, {Key: S("value"), Value: tla.MakeNumber(7)}})
								if err := iface.Write(out, nil, resp); err != nil {
									return err
								}
								if tpe == "commit_req" || tpe == "abort_req" {
									served++
								}
								if serveSections > 0 && served >= serveSections {
									serverEnded = true
									w.Probe("nested_server_ended_on_its_own")
									return iface.Goto("I.Done")
								}
								return iface.Goto("I.l0")
							}
							if endsAfter[k] > 0 && att >= endsAfter[k] {
								w.Probe("nested_context_ended_on_its_own")
								return iface.Goto("I.Done")
							}
							if k == 0 {
								if _, err := iface.Read(in, nil); err != nil {
									return err
								}
							} else {
								return distsys.ErrCriticalSectionAborted
							}
							return iface.Goto("I.l0")
						}},
						distsys.MPCalCriticalSection{Name: "I.Done", Body: func(distsys.ArchetypeInterface) error { return distsys.ErrDone }},
					),
					ProcTable: distsys.MakeMPCalProcTable(),
					PreAmble:  func(distsys.ArchetypeInterface) {},
				}
				ctxs = append(ctxs, distsys.NewMPCalContext(tla.MakeString(fmt.Sprintf("inner%d", k)), innerArch,
					distsys.EnsureArchetypeRefParam("out", resources.NewOutputChan(sendCh)),
					distsys.EnsureArchetypeRefParam("in", in),
					distsys.EnsureArchetypeRefParam("c", ic)))
			}
			if nInner >= 2 {
				w.Probe("nested_two_or_more_contexts")
			}
			return ctxs
		})
		cfgs = append(cfgs, distsys.EnsureArchetypeRefParam("n", nres))
	}

	// the program
	nestedStoppedSeen := false // a read of the nested resource reported that a nested archetype has stopped
	failureProduced := false   // a section body returned the program's assertion/resource error
	reachedErrorLabel := false // a section jumping to the Error label was executed (it may still be pre-empted before Error runs)
	bodyRan := 0
	var sections []distsys.MPCalCriticalSection
	for l := 0; l < nLabels; l++ {
		l := l
		next := fmt.Sprintf("A.l%d", l+1)
		if l == nLabels-1 {
			switch ending {
			case endLoop:
				next = "A.l0"
			case endErrorLabel:
				next = "A.Error"
			default:
				next = "A.Done"
			}
		}
		sections = append(sections, distsys.MPCalCriticalSection{Name: fmt.Sprintf("A.l%d", l), Body: func(iface distsys.ArchetypeInterface) error {
			bodyRan++
			st.sections++
			if st.firstStopRet != 0 {
				w.Fail("section_after_stop", "a critical section body started after a Stop call had returned")
			}
			for i, nm := range names {
				if (i+l)%2 == 1 && i != 0 {
					continue
				}
				h, err := iface.RequireArchetypeResourceRef("A." + nm)
				if err != nil {
					return err
				}
				if ending == endResErr && l == failAt && i == 0 {
					st.cells[0].failRead = true
				}
				v, err := iface.Read(h, nil)
				if err != nil {
					if errors.Is(err, errResource) {
						failureProduced = true
					}
					return err
				}
				if err := iface.Write(h, nil, tla.MakeNumber(v.AsNumber()+1)); err != nil {
					return err
				}
			}
			if useMap > 0 {
				h, err := iface.RequireArchetypeResourceRef("A.m")
				if err != nil {
					return err
				}
				idx := tla.MakeNumber(int32(l % useMap))
				v, err := iface.Read(h, []tla.Value{idx})
				if err != nil {
					return err
				}
				if err := iface.Write(h, []tla.Value{idx}, tla.MakeNumber(v.AsNumber()+1)); err != nil {
					return err
				}
			}
			if serverMode {
				h, err := iface.RequireArchetypeResourceRef("A.n")
				if err != nil {
					return err
				}
				if _, err := iface.Read(h, nil); err != nil {
					if errors.Is(err, resources.ErrNestedArchetypeStopped) {
						nestedStoppedSeen = true
					}
					return err
				}
				w.Probe("nested_resource_read")
			}
			if ending == endAssert && l == failAt {
				failureProduced = true
				return fmt.Errorf("%w: injected", distsys.ErrAssertionFailed)
			}
			if next == "A.Error" {
				reachedErrorLabel = true
			}
			return iface.Goto(next)
		}})
	}
	sections = append(sections,
		distsys.MPCalCriticalSection{Name: "A.Done", Body: func(distsys.ArchetypeInterface) error { return distsys.ErrDone }},
		distsys.MPCalCriticalSection{Name: "A.Error", Body: func(distsys.ArchetypeInterface) error { return distsys.ErrProcedureFallthrough }},
	)
	req := []string{}
	for _, nm := range names {
		req = append(req, "A."+nm)
	}
	if useMap > 0 {
		req = append(req, "A.m")
	}
	if nested {
		req = append(req, "A.n")
	}
	arch := distsys.MPCalArchetype{
		Name: "A", Label: "A.l0", RequiredRefParams: req,
		JumpTable: distsys.MakeMPCalJumpTable(sections...),
		ProcTable: distsys.MakeMPCalProcTable(),
		PreAmble:  func(distsys.ArchetypeInterface) {},
	}
	ctx := distsys.NewMPCalContext(tla.MakeString("self"), arch, cfgs...)

	// Stop callers
	type stopper struct {
		delay          time.Duration
		repeat         int
		called, ret    int
	}
	var stoppers []*stopper
	for i := 0; i < nStops; i++ {
		stoppers = append(stoppers, &stopper{delay: delays[w.Choose(sim.KOp, len(delays))], repeat: 1 + w.Choose(sim.KOp, 2)})
	}
	w.Event("cfg cells=%d labels=%d ending=%s failAt=%d map=%d stops=%d runDelay=%v second=%v nested=%v", nCells, nLabels, endNames[ending], failAt, useMap, nStops, runDelay, secondRun, nested)
	for i, s := range stoppers {
		s := s
		w.Go(fmt.Sprintf("stop%d", i), func() {
			if s.delay > 0 {
				w.Sleep(s.delay)
			}
			for k := 0; k < s.repeat; k++ {
				s.called++
				w.Event("stop call")
				ctx.Stop()
				s.ret++
				if st.firstStopRet == 0 {
					st.firstStopRet = w.Seq()
				}
				w.Event("stop returned")
				sim.Yield()
			}
		})
	}
	runReturned := false
	runStarted := false
	var runErr error
	var runPanic any
	second := ""
	w.Go("run", func() {
		if runDelay > 0 {
			w.Sleep(runDelay)
		}
		runStarted = true
		func() {
			defer func() {
				if r := recover(); r != nil {
					runPanic = r
				}
			}()
			runErr = ctx.Run()
		}()
		runReturned = true
		w.Event("run returned err=%v panic=%v", runErr, runPanic)
		if secondRun {
			before := bodyRan
			closesBefore := 0
			for _, c := range st.cells {
				closesBefore += c.closes
			}
			func() {
				defer func() {
					if r := recover(); r != nil {
						second = "panic"
					}
				}()
				err := ctx.Run()
				second = fmt.Sprintf("returned %v", err)
			}()
			closesAfter := 0
			for _, c := range st.cells {
				closesAfter += c.closes
			}
			if bodyRan != before {
				w.Fail("second_run_executes", "a second Run executed %d more section bodies (%s)", bodyRan-before, second)
			}
			if closesAfter != closesBefore {
				w.Fail("second_run_closes_again", "a second Run closed resources again: %d -> %d Close calls (%s)", closesBefore, closesAfter, second)
			}
		}
	})
	allDone := func() bool {
		if !runReturned {
			return false
		}
		for _, s := range stoppers {
			if s.ret < s.repeat {
				return false
			}
		}
		return true
	}
	// bound: a looping archetype only ends through Stop; everything else ends on its own.
	// Every Close takes <= 5 s, there are <= 10 resources, delays <= 6 s: 5 minutes of
	// simulated time is far beyond any legitimate completion.
	needStop := ending == endLoop
	if needStop && nStops == 0 {
		// nobody will stop it: stop it ourselves after a while, as one more caller
		w.Go("laststop", func() {
			w.Sleep(3 * time.Second)
			ctx.Stop()
		})
	}
	if !w.Await(allDone, 5*time.Minute) {
		blocked := ""
		if !runReturned {
			blocked += " Run"
		}
		for i, s := range stoppers {
			if s.ret < s.repeat {
				blocked += fmt.Sprintf(" Stop#%d(call %d)", i, s.called)
			}
		}
		w.Fail("lifecycle_hang", "not finished after 5 simulated minutes; still blocked:%s", blocked)
	}
	// ---- final oracles ----
	if runPanic != nil {
		w.Fail("run_panicked", "Run panicked: %v", runPanic)
	}
	stoppedBeforeRun := bodyRan == 0 && runErr == nil && nStops > 0
	started := bodyRan > 0
	if started {
		for _, c := range st.cells {
			if c.closes != 1 {
				w.Fail("close_count", "resource %s closed %d times after a started run (want exactly 1)", c.name, c.closes)
			}
		}
		for _, c := range nestedInner {
			// the nested context is started asynchronously by NewNested; if the outer run
			// ended before it executed anything it may legitimately never have started
			// (Stop case 2a), in which case its resources are not closed at all
			if c.closes > 1 || (c.reads > 0 && c.closes != 1) {
				w.Fail("close_count_nested", "nested inner resource closed %d times after %d reads (want exactly 1 once started, never 2)", c.closes, c.reads)
			}
			if c.reads > 0 {
				w.Probe("nested_context_started")
			}
		}
		for _, c := range st.cells {
			if c.commits > 0 && c.lastCommitSeq > c.closedAt {
				w.Fail("commit_after_close", "resource %s committed after Close", c.name)
			}
		}
	}
	_ = stoppedBeforeRun
	_ = reachedErrorLabel
	// result classification
	stoppedEarly := false
	for _, s := range stoppers {
		if s.called > 0 {
			stoppedEarly = true
		}
	}
	switch {
	case errors.Is(runErr, distsys.ErrAssertionFailed):
		if ending != endAssert {
			w.Fail("wrong_result", "Run reported an assertion failure but the program has none (ending %s)", endNames[ending])
		}
	case errors.Is(runErr, distsys.ErrProcedureFallthrough):
		if ending != endErrorLabel {
			w.Fail("wrong_result", "Run reported ErrProcedureFallthrough but ending is %s", endNames[ending])
		}
	case errors.Is(runErr, resources.ErrNestedArchetypeStopped):
		// a resource error: legal only if the nested server did end on its own before a section read the resource
		if !serverEnded {
			w.Fail("wrong_result", "Run reported that a nested archetype has stopped, but none had ended on its own")
		}
	case errors.Is(runErr, errResource):
		if ending != endResErr {
			w.Fail("wrong_result", "Run reported a resource error but ending is %s", endNames[ending])
		}
	case runErr == nil:
		// normal termination or stopped: legal for done/loop always; for the failing
		// endings only if a Stop pre-empted the run before the failing section executed.
		// Once a section has produced the error, Run must report it whatever Stop does.
		if nestedStoppedSeen && !stoppedEarly {
			w.Fail("failure_masked", "a read of the nested resource failed (nested archetype stopped) but Run returned nil and nobody called Stop")
		}
		if failureProduced {
			w.Fail("failure_masked", "a critical section failed (%s) but Run returned nil (Stop called: %v)", endNames[ending], stoppedEarly)
		}
		if (ending == endAssert || ending == endErrorLabel || ending == endResErr) && !stoppedEarly {
			w.Fail("wrong_result", "Run returned nil although the program ends with %s and nobody called Stop", endNames[ending])
		}
	default:
		w.Fail("wrong_result", "Run returned an unexpected error: %v", runErr)
	}
	if ending == endDone && !stoppedEarly && bodyRan != nLabels && runErr == nil && !serverMode { // requests to a nested server may time out: sections are retried
		w.Fail("wrong_sections", "program of %d labels ran %d section bodies without any Stop", nLabels, bodyRan)
	}
	if len(mapCells) > 0 {
		w.Probe("map_elements_realised")
	}
	if nested {
		w.Probe("nested_context")
	}
	if nStops >= 3 {
		w.Probe("three_or_more_stops")
	}
	if started && stoppedEarly {
		w.Probe("stop_during_or_after_run")
	}
	if !started && runStarted {
		w.Probe("stopped_before_run")
	}
	if secondRun {
		w.Probe("second_run_attempted")
	}
}

func configure(seed uint64, tier string) sim.RunConfig {
	x := sim.SplitMix64(seed ^ 0xc17)
	cfg := sim.RunConfig{
		MaxSteps:    200_000,
		MaxSim:      30 * time.Minute,
		IdleLimit:   time.Hour,
		PreemptProb: []float64{0.02, 0.1, 0.3, 0.5}[x%4],
	}
	if (x>>8)%3 == 0 {
		cfg.StallProb = 0.02
		cfg.StallMax = 3 * time.Second
	}
	return cfg
}

func TestWorker(t *testing.T) {
	harness.Worker(t, harness.Spec{
		Property:  "C17",
		Configure: configure,
		Scenario:  scenario,
		NonTrivial: func(r *sim.Result) bool {
			return r.Probes["stop_during_or_after_run"] > 0 || r.Probes["stopped_before_run"] > 0 || r.Preemptions > 0
		},
		Describe: func(r *sim.Result) any {
			ev := r.Events
			return map[string]any{"steps": r.Steps, "sim_time": r.SimTime.String(), "probes": r.Probes, "faults": r.Faults, "events_head": head(ev, 40)}
		},
	})
}

func head(s []string, n int) []string {
	if len(s) > n {
		return s[:n]
	}
	return s
}
