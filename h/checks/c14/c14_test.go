// C14 — generated primary-backup store: replicas agree whenever the primary answers.
// The real generated AReplica/AClient archetypes of systems/pbkvs run in the level-A
// spec world (ReliableFIFOLink indexed by <<id, typ>>, NetworkToggle, PerfectFD,
// LeaderElection on the alive set, NetworkBufferLength, FileSystem, Channel), with
// EXPLORE_FAIL: every mayFail branch is a stream decision, bounded so that one replica
// survives. ConsistencyOK is evaluated after every committed step and the clients'
// history is checked for linearizability.
package c14

import (
	"fmt"
	"strings"
	"testing"

	"github.com/DistCompiler/pgo/distsys/tla"
	"github.com/anishathalye/porcupine"

	"verif/env"
	"verif/envsys"
	"verif/harness"
	"verif/sim"
)

type op struct {
	client    int
	put       bool
	value     string
	call, ret int64
	sends     int // how often the request went out
}

var lastHist []op
var lastDesc string

func S(s string) tla.Value { return tla.MakeString(s) }

func scenario(w *sim.World) {
	lastHist = nil
	nr := 1 + w.Choose(sim.KCfg, 4)
	nc := 1 + w.Choose(sim.KCfg, 3)
	explore := w.Choose(sim.KCfg, 3) != 0
	nOps := 1 + w.Choose(sim.KCfg, 6)
	var input []tla.Value
	for i := 0; i < nOps; i++ {
		if w.Choose(sim.KOp, 2) == 0 {
			input = append(input, tla.MakeRecord([]tla.RecordField{{Key: S("typ"), Value: tla.MakeNumber(3)},
				{Key: S("body"), Value: tla.MakeRecord([]tla.RecordField{{Key: S("key"), Value: S("KEY1")}, {Key: S("value"), Value: S(fmt.Sprintf("V%d", i))}})}}))
		} else {
			input = append(input, tla.MakeRecord([]tla.RecordField{{Key: S("typ"), Value: tla.MakeNumber(1)},
				{Key: S("body"), Value: tla.MakeRecord([]tla.RecordField{{Key: S("key"), Value: S("KEY1")}})}}))
		}
	}
	wd := env.NewWorld(w)
	if w.Choose(sim.KCfg, 2) == 1 {
		// injected refusals: an environment resource aborts an attempt at a drawn operation (no step in the spec)
		wd.FaultBudget = 1 + w.Choose(sim.KCfg, 6)
		w.Probe("env_refusals_enabled")
	}
	p := envsys.NewPBKVS(wd, nr, nc, explore, input)
	hunt := explore && nr >= 3 && w.Choose(sim.KCfg, 2) == 1
	if hunt {
		// crashes concentrate on the primary while it is half-way through replicating a request
		// (some backups have it, others not) and are rare otherwise: take-overs with a partly
		// replicated request, and the take-over synchronisation, are what is being hunted
		p.CrashP0 = func(i int) float64 {
			a := p.Replicas[i-1]
			lowest := 0
			for k := nr; k >= 1; k-- {
				if p.Alive(k) {
					lowest = k
				}
			}
			if i == lowest && (strings.HasSuffix(a.PC, ".sndReplicaReqLoop") || strings.HasSuffix(a.PC, ".rcvReplicaRespLoop")) {
				if idx, ok := a.Local("AReplica.idx"); ok && idx.IsNumber() && idx.AsNumber() >= 2 {
					return 0.3
				}
			}
			return 0.95
		}
		w.Probe("mid_replication_hunt")
	}
	desc := fmt.Sprintf("replicas=%d clients=%d exploreFail=%v ops=%d hunt=%v", nr, nc, explore, nOps, hunt)
	lastDesc = desc
	w.Event("cfg %s", desc)
	pending := map[int]*op{}
	var hist []op
	crashes := 0
	wasAlive := make([]bool, nr+1)
	for i := 1; i <= nr; i++ {
		wasAlive[i] = true
	}
	pcName := func(a *env.Actor) string {
		if a.Done() {
			return "Done"
		}
		return a.PC[strings.Index(a.PC, ".")+1:]
	}
	wd.AfterStep = func(a *env.Actor, label string, committed bool) {
		if !committed {
			return
		}
		// ConsistencyOK, transcribed
		var alive []int
		for i := 1; i <= nr; i++ {
			if p.Alive(i) {
				alive = append(alive, i)
			} else if wasAlive[i] {
				wasAlive[i] = false
				crashes++
				w.Probe("replica_crashed")
				if pcName(a) == "failLabel" && (label == "AReplica.sndReplicaReqLoop" || label == "AReplica.rcvReplicaRespLoop") {
					w.Probe("primary_crashed_mid_replication")
				}
			}
		}
		if len(alive) > 0 {
			prim := alive[0]
			if pcName(p.Replicas[prim-1]) == "sndResp" {
				w.Probe("primary_about_to_answer")
				fsP := wd.Vars["fs"].ApplyFunction(tla.MakeNumber(int32(prim)))
				for _, r := range alive {
					fsR := wd.Vars["fs"].ApplyFunction(tla.MakeNumber(int32(r)))
					if !fsP.Equal(fsR) {
						w.Fail("ConsistencyOK", "after %s of %s: primary %d is about to answer (pc = sndResp) holding %v while live replica %d holds %v | %s", label, a.Name, prim, fsP, r, fsR, desc)
					}
				}
			}
		}
		// client history
		for k, ca := range p.Clients {
			if ca != a {
				continue
			}
			cl := k + 1
			switch label {
			case "AClient.clientLoop":
				m, _ := a.Local("AClient.msg")
				o := &op{client: cl, call: int64(w.Seq())}
				if m.ApplyFunction(S("typ")).AsNumber() == 3 {
					o.put = true
					o.value = m.ApplyFunction(S("body")).ApplyFunction(S("value")).AsString()
				}
				pending[cl] = o
			case "AClient.sndReq":
				if pending[cl] != nil {
					pending[cl].sends++ // the request goes out (again, after the replica it was sent to was detected as failed)
				}
			case "AClient.rcvResp":
				if pcName(a) == "clientLoop" && pending[cl] != nil {
					o := pending[cl]
					o.ret = int64(w.Seq())
					if !o.put {
						o.value = wd.Vars["clientOutput"].AsString()
					}
					hist = append(hist, *o)
					pending[cl] = nil
				}
			}
		}
	}
	wd.Start()
	steps := 0
	for ; steps < 300+200*nr*nc; steps++ {
		en := wd.Enabled()
		if len(en) == 0 {
			break
		}
		a := en[w.Choose(sim.KSched, len(en))]
		wd.Step(a)
		if w.Failed() {
			return
		}
		if a.Done() && (a.Err != nil || a.Panic != nil) {
			w.Fail("archetype_failed", "%s ended at %s with error %v / panic %v (an assertion of the spec failed in the generated code) | %s | %s", a.Name, a.PC, a.Err, a.Panic, wd.Render(), desc)
		}
	}
	for _, o := range pending {
		if o != nil {
			hist = append(hist, *o)
		}
	}
	lastHist = hist
	w.Count("spec_steps", steps)
	w.Count("client_ops", len(hist))
	w.Count("replicas", nr)
	if crashes > 0 && len(hist) > 0 {
		w.Probe("ops_with_crashes")
	}
	wd.StopAll()
}

type in struct {
	put   bool
	value string
}

func postCheck(r *sim.Result) (string, string) {
	hist := lastHist
	if len(hist) == 0 {
		return "", ""
	}
	model := porcupine.Model{
		Init: func() interface{} { return "" },
		Step: func(state, input, output interface{}) (bool, interface{}) {
			i := input.(in)
			if i.put {
				return true, i.value
			}
			return output.(string) == state.(string), state
		},
		Equal: func(a, b interface{}) bool { return a == b },
	}
	const forever = int64(1) << 60
	var ops []porcupine.Operation
	for k, o := range hist {
		ret := o.ret
		if ret == 0 {
			if !o.put {
				continue
			}
			ret = forever + int64(k)
		}
		ops = append(ops, porcupine.Operation{ClientId: o.client, Input: in{o.put, o.value}, Call: o.call, Output: o.value, Return: ret})
	}
	switch porcupine.CheckOperationsTimeout(model, ops, harness.PorcupineTimeout()) {
	case porcupine.Illegal:
		var sb strings.Builder
		for _, o := range hist {
			kind := "get"
			if o.put {
				kind = "put"
			}
			fmt.Fprintf(&sb, "[c%d %s %q %d..%d sends=%d] ", o.client, kind, o.value, o.call, o.ret, o.sends)
		}
		// Recorded finding: a client re-sends its request when the replica it was talking to is
		// detected as failed; a Put that the failed primary had already replicated is applied
		// again by the next primary (no de-duplication), over Puts acknowledged in between.
		// It explains a history exactly when the history becomes linearizable once every
		// re-sent Put may take effect a second time (a ghost Put that never returns, which
		// porcupine may place after everything else: optional). Anything else is reported.
		ghosts := append([]porcupine.Operation{}, ops...)
		resent := 0
		for k, o := range hist {
			if o.put && o.sends > 1 {
				resent++
				for g := 1; g < o.sends && g <= 2; g++ {
					ghosts = append(ghosts, porcupine.Operation{ClientId: 1000 + 10*k + g, Input: in{true, o.value}, Call: o.call, Output: o.value, Return: forever + int64(1000+10*k+g)})
				}
			}
		}
		if resent > 0 && porcupine.CheckOperationsTimeout(model, ghosts, harness.PorcupineTimeout()) != porcupine.Illegal {
			return "not_linearizable_after_put_retry", fmt.Sprintf("acknowledged client operations are not linearizable, and they are once the %d Put(s) that a client re-sent after its replica failed may take effect a second time: ", resent) + sb.String() + "| " + lastDesc
		}
		return "not_linearizable", "acknowledged client operations are not linearizable: " + sb.String() + "| " + lastDesc
	case porcupine.Unknown:
		r.Counts["porcupine_inconclusive"]++
	default:
		r.Counts["histories_checked"]++
	}
	return "", ""
}

func TestWorker(t *testing.T) {
	harness.Worker(t, harness.Spec{
		Property:  "C14",
		Configure: func(seed uint64, tier string) sim.RunConfig { return sim.RunConfig{MaxSteps: 2_000_000, StepCost: 1000} },
		Scenario:  scenario,
		PostCheck: postCheck,
		NonTrivial: func(r *sim.Result) bool {
			return r.Counts["client_ops"] >= 2 && r.Counts["replicas"] >= 2
		},
		Describe: func(r *sim.Result) any {
			return map[string]any{"events": r.Events[:min(len(r.Events), 2)], "probes": r.Probes, "spec_steps": r.Counts["spec_steps"], "client_ops": r.Counts["client_ops"]}
		},
	})
}
