// C11 — the two-phase-commit variable behaves as one copy and does not livelock.
// 2-5 nodes each own the REAL NewTwoPC resource; archetypes run increment sections
// concurrently. Three transports, same workload: the in-process LocalReplicaHandle, a
// simulator ReplicaHandle delivering to the peer's exported Receive with drawn delay,
// loss and duplication, and the real RPCReplicaHandle (net/rpc, gob) over the simulated
// network.
package c11

import (
	"errors"
	"fmt"
	"strings"
	"testing"
	"time"

	"github.com/DistCompiler/pgo/distsys"
	"github.com/DistCompiler/pgo/distsys/resources"
	"github.com/DistCompiler/pgo/distsys/tla"
	"github.com/DistCompiler/pgo/distsys/trace"

	"verif/harness"
	"verif/sim"
	"verif/sim/snet"
	"verif/ulib"
)

const (
	trLocal = iota
	trSim
	trRPC
)

var trNames = []string{"in-process", "simulated-message", "rpc"}

type sys struct {
	w        *sim.World
	n        int
	transport int
	lossy    bool
	res      []distsys.ArchetypeResource
	rcv      []*resources.TwoPCReceiver
	incs     []int // sections per node
	failPlan [][]int
	done     int
	commits  []commitRec
	lastVer  []int
	byVer    map[int]string
	desc     string
	faultsOn bool
	down     []bool // nodes currently cut off (a minority, for a window)
	cutFrom  time.Duration
	cutFor   time.Duration
	cutSet   []int
	dropped  map[[2]int]bool // [to, from]: a Commit or Abort of `from` never reached `to` (transport reported an error)
	preSent    map[[2]int]int64 // [to, from]: latest SenderTime of a PreCommit `from` has handed to its handle for `to`
	droppedCommit map[[2]int]bool // [to, from]: a Commit of `from` never reached `to`
	abortAcked map[[2]int]int64 // [to, from]: latest SenderTime of an Abort of `from` that `to` has processed (Send returned without error)
}

// obsHandle observes what a proposer's handle to one replica reports, whatever the
// transport underneath: an Abort whose Send returned without error has been processed by
// that replica.
type obsHandle struct {
	s        *sys
	from, to int
	inner    resources.ReplicaHandle
}

func (h *obsHandle) Close() error { return h.inner.Close() }

func (h *obsHandle) Send(req resources.TwoPCRequest, reply *resources.TwoPCResponse) chan error {
	if req.RequestType == resources.PreCommit {
		k := [2]int{h.to, h.from}
		if req.SenderTime > h.s.preSent[k] {
			h.s.preSent[k] = req.SenderTime
		}
	}
	ch := h.inner.Send(req, reply)
	// all three handles deliver synchronously: the result is already in the channel
	var err error
	select {
	case err = <-ch:
	default:
		return ch
	}
	h.s.w.Event("2pc %d->%d %v v%d t=%d: err=%v accept=%v replyVersion=%d", h.from, h.to, req.RequestType, req.Version, req.SenderTime, err, reply.Accept, reply.Version)
	if err == nil && req.RequestType == resources.Abort {
		k := [2]int{h.to, h.from}
		if req.SenderTime > h.s.abortAcked[k] {
			h.s.abortAcked[k] = req.SenderTime
		}
		h.s.w.Probe("abort_processed_by_replica")
	}
	out := make(chan error, 1)
	out <- err
	return out
}

// lostTo says whether the transport dropped a Commit/Abort of proposer `from` (rendered
// sender id) on its way to replica `to`; on the RPC transport drops are not observable
// per message, so any cut-off involving either node counts.
func (s *sys) lostTo(to int, from string) bool {
	for k := range s.dropped {
		if k[0] == to && fmt.Sprintf("%q", fmt.Sprintf("node%d", k[1])) == from {
			return true
		}
	}
	if s.transport == trRPC && len(s.cutSet) > 0 {
		return true
	}
	return false
}

// commitLost says whether the transport dropped a Commit on its way to some replica (which
// is never re-sent once the committer has moved on: recorded finding). Such a replica stays
// at the old version; its promise for that version is forgotten as soon as a proposal of a
// later version passes through it, and it can then vote for a second proposal of the version
// it missed: two proposers win one version.
func (s *sys) commitLost() string {
	for k := range s.droppedCommit {
		return fmt.Sprintf("the Commit of node %d to replica %d was dropped by the transport and never re-sent", k[1], k[0])
	}
	return ""
}

type commitRec struct {
	node     int
	read     int32
	at       time.Duration
}

// simHandle delivers requests to the peer's exported Receive as a message transport
// would: after a drawn delay, possibly lost (error to the caller) or duplicated.
type simHandle struct {
	s    *sys
	from int
	to   int
}

func (h *simHandle) Close() error { return nil }

func (h *simHandle) Send(req resources.TwoPCRequest, reply *resources.TwoPCResponse) chan error {
	w := h.s.w
	ch := make(chan error, 1)
	d := time.Duration(w.Choose(sim.KNet, 6)) * 3 * time.Millisecond
	if d > 0 {
		w.Sleep(d)
	} else {
		sim.Yield()
	}
	noteDrop := func() {
		if req.RequestType == resources.Commit || req.RequestType == resources.Abort {
			h.s.dropped[[2]int{h.to, h.from}] = true
		}
		if req.RequestType == resources.Commit {
			h.s.droppedCommit[[2]int{h.to, h.from}] = true
		}
	}
	if h.s.down[h.from] || h.s.down[h.to] {
		noteDrop()
		w.Fault("message_to_or_from_cut_off_node")
		w.Sleep(50 * time.Millisecond)
		ch <- errors.New("simulated: peer unreachable")
		return ch
	}
	if h.s.lossy && h.s.faultsOn {
		switch w.ChooseP(sim.KNet, 8, 0.8) {
		case 1: // request lost
			noteDrop()
			w.Fault("message_lost")
			ch <- errors.New("simulated loss")
			return ch
		case 2: // request duplicated
			w.Fault("message_duplicated")
			var dup resources.TwoPCResponse
			_ = h.s.rcv[h.to].Receive(req, &dup)
			sim.Yield()
		case 3: // reply lost (request processed)
			w.Fault("reply_lost")
			var lost resources.TwoPCResponse
			_ = h.s.rcv[h.to].Receive(req, &lost)
			ch <- errors.New("simulated reply loss")
			return ch
		}
	}
	err := h.s.rcv[h.to].Receive(req, reply)
	ch <- err
	return ch
}

func addr(i int) string { return fmt.Sprintf("tpc%d:6000", i) }

func (s *sys) build() {
	w := s.w
	s.n = 2 + w.Choose(sim.KCfg, 4)
	s.transport = w.Choose(sim.KCfg, 3)
	s.lossy = s.transport == trSim && w.Choose(sim.KCfg, 2) == 1
	s.faultsOn = true
	s.res = make([]distsys.ArchetypeResource, s.n)
	s.rcv = make([]*resources.TwoPCReceiver, s.n)
	s.lastVer = make([]int, s.n)
	s.byVer = map[int]string{}
	s.down = make([]bool, s.n)
	s.dropped = map[[2]int]bool{}
	s.abortAcked = map[[2]int]int64{}
	s.droppedCommit = map[[2]int]bool{}
	s.preSent = map[[2]int]int64{}
	if s.n >= 3 && w.Choose(sim.KFault, 3) == 1 {
		// cut off a minority for a while: they miss commits and come back lagging
		m := 1 + w.Choose(sim.KFault, (s.n-1)/2)
		for len(s.cutSet) < m {
			c := w.Choose(sim.KFault, s.n)
			dup := false
			for _, x := range s.cutSet {
				if x == c {
					dup = true
				}
			}
			if !dup {
				s.cutSet = append(s.cutSet, c)
			}
		}
		s.cutFrom = time.Duration(w.Choose(sim.KFault, 6)) * 10 * time.Millisecond
		s.cutFor = []time.Duration{20 * time.Millisecond, 200 * time.Millisecond, 2 * time.Second}[w.Choose(sim.KFault, 3)] // longer outages only grow the (uncapped) exponential back-off beyond any fixed progress bound
	}
	var sb strings.Builder
	fmt.Fprintf(&sb, "nodes=%d transport=%s lossy=%v cut=%v from %v for %v |", s.n, trNames[s.transport], s.lossy, s.cutSet, s.cutFrom, s.cutFor)
	for i := 0; i < s.n; i++ {
		i := i
		// replica handles are wired after all resources exist
		s.res[i] = resources.NewTwoPC(tla.MakeNumber(0), addr(i), nil, tla.MakeString(fmt.Sprintf("node%d", i)),
			func(r *resources.TwoPCReceiver) { s.rcv[i] = r })
	}
	for i := 0; i < s.n; i++ {
		var hs []resources.ReplicaHandle
		for j := 0; j < s.n; j++ {
			if j == i {
				continue
			}
			switch s.transport {
			case trLocal:
				hs = append(hs, &obsHandle{s: s, from: i, to: j, inner: resources.VerifLocalReplicaHandle(s.res[j])})
			case trSim:
				hs = append(hs, &obsHandle{s: s, from: i, to: j, inner: &simHandle{s: s, from: i, to: j}})
			default:
				h := resources.MakeRPCReplicaHandle(addr(j), tla.MakeString(fmt.Sprintf("node%d", j)))
				hs = append(hs, &obsHandle{s: s, from: i, to: j, inner: &h})
			}
		}
		s.res[i].(*resources.TwoPCArchetypeResource).SetReplicas(hs)
	}
	budget := 14
	for i := 0; i < s.n; i++ {
		k := w.Choose(sim.KOp, 4)
		if i == 0 && k == 0 {
			k = 1
		}
		if k > budget {
			k = budget
		}
		budget -= k
		s.incs = append(s.incs, k)
		var fp []int
		for j := 0; j < k; j++ {
			f := 0
			if w.Choose(sim.KFault, 4) == 1 {
				f = 1 + w.Choose(sim.KFault, 2)
			}
			fp = append(fp, f)
		}
		s.failPlan = append(s.failPlan, fp)
		fmt.Fprintf(&sb, " N%d: %d increments %v", i, k, fp)
	}
	s.desc = fmt.Sprintf("cut=%v from %v for %v ", s.cutSet, s.cutFrom, s.cutFor) + sb.String()
}

func (s *sys) runNode(i int) {
	w := s.w
	k := s.incs[i]
	attempts := make([]int, k+1)
	var cur *commitRec
	rec := &ulib.Recorder{OnEvent: func(ev trace.Event) {
		if cur != nil && !ev.IsAbort {
			cur.at = w.Now()
			s.commits = append(s.commits, *cur)
		}
		if cur != nil && ev.IsAbort {
			w.Probe("section_aborted")
		}
		cur = nil
	}}
	mkBody := func(j int) func(distsys.ArchetypeInterface) error {
		return func(iface distsys.ArchetypeInterface) error {
			c, err := iface.RequireArchetypeResourceRef("A.cntr")
			if err != nil {
				return err
			}
			cur = nil
			v, err := iface.Read(c, nil)
			if err != nil {
				return err
			}
			if err := iface.Write(c, nil, tla.MakeNumber(v.AsNumber()+1)); err != nil {
				return err
			}
			if attempts[j] < s.failPlan[i][j] {
				attempts[j]++
				w.Fault("await_false_after_write")
				return distsys.ErrCriticalSectionAborted
			}
			cur = &commitRec{node: i, read: v.AsNumber()}
			next := "A.Done"
			if j+1 < k {
				next = fmt.Sprintf("A.s%d", j+1)
			}
			return iface.Goto(next)
		}
	}
	var secs []distsys.MPCalCriticalSection
	for j := 0; j < k; j++ {
		secs = append(secs, distsys.MPCalCriticalSection{Name: fmt.Sprintf("A.s%d", j), Body: mkBody(j)})
	}
	secs = append(secs, distsys.MPCalCriticalSection{Name: "A.Done", Body: func(distsys.ArchetypeInterface) error {
		// the resource stays open (it must keep answering its peers) until everybody is done
		s.done++
		w.Await(func() bool { return s.done == s.n }, 40*time.Minute)
		// let straggling Commit/Abort retries of the peers reach this replica
		w.Sleep(12 * time.Second)
		return distsys.ErrDone
	}})
	label := "A.Done"
	if k > 0 {
		label = "A.s0"
	}
	arch := distsys.MPCalArchetype{Name: "A", Label: label, RequiredRefParams: []string{"A.cntr"},
		JumpTable: distsys.MakeMPCalJumpTable(secs...), ProcTable: distsys.MakeMPCalProcTable(), PreAmble: func(distsys.ArchetypeInterface) {}}
	var tk *sim.Task
	tk = w.Go(fmt.Sprintf("N%d", i), func() {
		snet.Of(w).DeclareNode(fmt.Sprintf("n%d", i), tk.ID)
		if d := w.Choose(sim.KCfg, 3); d > 0 {
			w.Sleep(time.Duration(d) * 7 * time.Millisecond)
		}
		ctx := distsys.NewMPCalContext(tla.MakeNumber(int32(i)), arch,
			distsys.EnsureArchetypeRefParam("cntr", s.res[i]), distsys.SetTraceRecorder(rec))
		if err := ctx.Run(); err != nil {
			w.Fail("run_error", "node %d: Run returned %v | %s", i, err, s.desc)
		}
	})
}

// invariant is evaluated at every scheduling point.
func (s *sys) invariant() {
	w := s.w
	for i := 0; i < s.n; i++ {
		ver, val, _, _, _, _ := resources.VerifTwoPCSnapshot(s.res[i])
		if ver < s.lastVer[i] {
			w.Fail("version_decreased", "replica %d: version went from %d to %d | %s", i, s.lastVer[i], ver, s.desc)
		}
		s.lastVer[i] = ver
		c := ulib.Canon(val)
		if old, ok := s.byVer[ver]; ok {
			if old != c {
				if why := s.commitLost(); why != "" {
					w.Fail("two_winners_after_lost_commit", "replica %d holds %s for version %d, another replica held %s for the same version; %s | %s", i, c, ver, old, why, s.desc)
				}
				w.Fail("two_values_for_one_version", "replica %d holds %s for version %d, another replica held %s for the same version | %s", i, c, ver, old, s.desc)
			}
		} else {
			s.byVer[ver] = c
		}
		// a proposal whose Abort this replica has processed is released: the replica does not
		// (still, or again through a straggling copy of the PreCommit) hold a pre-commit of a
		// proposer whose latest Abort it has processed and who has proposed nothing since
		if _, _, acc, from, av, _ := resources.VerifTwoPCSnapshot(s.res[i]); acc {
			for j := 0; j < s.n; j++ {
				k := [2]int{i, j}
				if fmt.Sprintf("%q", fmt.Sprintf("node%d", j)) == from && s.abortAcked[k] > s.preSent[k] {
					w.Fail("aborted_proposal_not_released", "replica %d holds an accepted pre-commit of proposer %d (version %d) although it has processed that proposer's Abort stamped %d and the proposer's latest PreCommit to it is older (stamped %d) | %s", i, j, av, s.abortAcked[k], s.preSent[k], s.desc)
				}
			}
		}
	}
}

func scenario(w *sim.World) {
	s := &sys{w: w}
	s.build()
	w.Event("cfg %s", s.desc)
	w.OnStep(s.invariant)
	net := snet.Of(w)
	for i := 0; i < s.n; i++ {
		net.PlaceAddr(addr(i), fmt.Sprintf("n%d", i))
	}
	for i := 0; i < s.n; i++ {
		s.runNode(i)
	}
	if len(s.cutSet) > 0 {
		w.Go("cutter", func() {
			w.Sleep(s.cutFrom + time.Microsecond)
			for _, c := range s.cutSet {
				s.down[c] = true
				if s.transport == trRPC {
					net.Isolate(fmt.Sprintf("n%d", c))
				}
			}
			w.Fault("minority_cut_off")
			w.Sleep(s.cutFor)
			for _, c := range s.cutSet {
				s.down[c] = false
				if s.transport == trRPC {
					net.Heal(fmt.Sprintf("n%d", c))
				}
			}
		})
	}
	// progress: rpcTimeout 5 s, retries sleep 1 s, exponential back-off up to ~50 s
	ok := w.Await(func() bool { return s.done == s.n }, 30*time.Minute)
	if w.Failed() {
		return
	}
	if !ok {
		var sb strings.Builder
		for i := 0; i < s.n; i++ {
			ver, val, acc, from, av, cs := resources.VerifTwoPCSnapshot(s.res[i])
			fmt.Fprintf(&sb, "replica %d: version %d value %s accepted=%v from %s v%d cs=%s; ", i, ver, ulib.Canon(val), acc, from, av, cs)
		}
		// known class: under message loss a Commit that is lost on its way to a minority
		// replica is not retried once the committer has moved on; a writer on that replica
		// which had accepted the pre-commit then aborts locally forever
		for i := 0; i < s.n; i++ {
			_, _, acc, from, av, _ := resources.VerifTwoPCSnapshot(s.res[i])
			if acc && s.lostTo(i, from) {
				w.Fail("writer_stuck_behind_lost_commit", "after 30 simulated minutes %d of %d writers have finished; replica %d still holds the accepted pre-commit of %s version %d and the transport had dropped a Commit/Abort of that proposer to it (never resent): %s| %s", s.done, s.n, i, from, av, sb.String(), s.desc)
			}
		}
		w.Fail("no_progress", "after 30 simulated minutes %d of %d writers have finished: %s| blocked on locks: %s | %s %s", s.done, s.n, sb.String(), w.BlockedSummary(), s.desc, sim.Stacks())
	}
	// faults stop; let the last commits spread
	s.faultsOn = false
	w.Sleep(10 * time.Second)
	total := 0
	for _, k := range s.incs {
		total += k
	}
	if len(s.commits) != total {
		w.Fail("commit_count", "%d increment sections were programmed, %d committed | %s", total, len(s.commits), s.desc)
	}
	// single-copy register: the committed increments read 0,1,2,... each exactly once
	seen := map[int32]int{}
	for _, c := range s.commits {
		if prev, dup := seen[c.read]; dup {
			if why := s.commitLost(); why != "" {
				w.Fail("two_winners_after_lost_commit", "two committed increments (nodes %d and %d) both read %d: two proposers won one version; %s | %s", prev, c.node, c.read, why, s.desc)
			}
			w.Fail("lost_update", "two committed increments (nodes %d and %d) both read %d: one overwrote the other | %s", prev, c.node, c.read, s.desc)
		}
		seen[c.read] = c.node
	}
	for v := int32(0); v < int32(total); v++ {
		if _, ok := seen[v]; !ok {
			w.Fail("not_single_copy", "committed increments read %v, which is not 0..%d each once | %s", seen, total-1, s.desc)
		}
	}
	for i := 0; i < s.n; i++ {
		ver, val, acc, from, av, _ := resources.VerifTwoPCSnapshot(s.res[i])
		committedBy := -1
		for _, c := range s.commits {
			if int(c.read)+1 == av {
				committedBy = c.node
			}
		}
		// an accepted pre-commit of a proposal that went on to commit is just a lagging
		// replica (it has not heard the Commit yet); one of a proposal that was rejected or
		// aborted must have been released
		if acc && from != fmt.Sprintf("%q", fmt.Sprintf("node%d", committedBy)) && s.lostTo(i, from) {
			w.Fail("precommit_kept_after_lost_abort", "all writers have finished, yet replica %d still holds an accepted pre-commit from %s (version %d); the transport had dropped an Abort/Commit of that proposer to it, which is never resent | %s", i, from, av, s.desc)
		}
		if acc && from != fmt.Sprintf("%q", fmt.Sprintf("node%d", committedBy)) {
			w.Fail("precommit_not_released", "all writers have finished, yet replica %d still holds an accepted pre-commit from %s (version %d) | %s", i, from, av, s.desc)
		}
		// a majority has every committed version; lagging replicas are allowed to lag, but never to differ
		if ver == total && ulib.Canon(val) != ulib.Canon(tla.MakeNumber(int32(total))) {
			w.Fail("final_value", "replica %d is at version %d with value %s, expected %d | %s", i, ver, ulib.Canon(val), total, s.desc)
		}
	}
	w.Probe("transport_" + trNames[s.transport])
	if s.n >= 3 {
		w.Probe("three_or_more_replicas")
	}
	w.Count("increments_committed", len(s.commits))
}

func configure(seed uint64, tier string) sim.RunConfig {
	x := sim.SplitMix64(seed ^ 0xc11)
	cfg := sim.RunConfig{
		MaxSteps:    2_000_000,
		MaxSim:      3 * time.Hour,
		PreemptProb: []float64{0.05, 0.2, 0.4}[x%3],
		StepCost:    []time.Duration{100 * time.Microsecond, time.Millisecond}[(x>>4)%2], // retry loops busy-wait for seconds on peers: charge realistic time per step
	}
	if (x>>8)%3 == 0 {
		cfg.StallProb = 0.01
		cfg.StallMax = 200 * time.Millisecond
	}
	return cfg
}

func TestWorker(t *testing.T) {
	harness.Worker(t, harness.Spec{
		Property:  "C11",
		Configure: configure,
		Scenario:  scenario,
		NonTrivial: func(r *sim.Result) bool {
			return r.Counts["increments_committed"] >= 2 && r.Preemptions > 0
		},
		Describe: func(r *sim.Result) any {
			return map[string]any{"events": r.Events[:min(len(r.Events), 2)], "probes": r.Probes, "faults": r.Faults, "increments_committed": r.Counts["increments_committed"]}
		},
	})
}
