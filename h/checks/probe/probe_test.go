package probe

import (
	"testing"

	"github.com/DistCompiler/pgo/distsys"
	_ "github.com/DistCompiler/pgo/distsys/resources"
)

func TestBuild(t *testing.T) { _ = distsys.ErrDone }
