package c16

import (
	"fmt"
	"sort"
	"strings"
	"time"

	"github.com/DistCompiler/pgo/distsys"
	"github.com/DistCompiler/pgo/distsys/resources"
	"github.com/DistCompiler/pgo/distsys/tla"
	"github.com/DistCompiler/pgo/systems/gcounter"
	"github.com/DistCompiler/pgo/systems/shcounter"
	"github.com/DistCompiler/pgo/systems/shopcart"

	"verif/sim"
	"verif/ulib"
)

// spy forwards to the real resource and reports every value the archetype reads.
type spy struct {
	inner  distsys.ArchetypeResource
	onRead func(tla.Value)
	onWrite func(tla.Value)
	onCommit func()
	onAbort func()
}

func (s *spy) Abort(i distsys.ArchetypeInterface) chan struct{} {
	if s.onAbort != nil {
		s.onAbort()
	}
	return s.inner.Abort(i)
}
func (s *spy) PreCommit(i distsys.ArchetypeInterface) chan error { return s.inner.PreCommit(i) }
func (s *spy) Commit(i distsys.ArchetypeInterface) chan struct{} {
	ch := s.inner.Commit(i)
	if s.onCommit != nil {
		s.onCommit()
	}
	return ch
}
func (s *spy) ReadValue(i distsys.ArchetypeInterface) (tla.Value, error) {
	v, err := s.inner.ReadValue(i)
	if err == nil && s.onRead != nil {
		s.onRead(v)
	}
	return v, err
}
func (s *spy) WriteValue(i distsys.ArchetypeInterface, v tla.Value) error {
	err := s.inner.WriteValue(i, v)
	if err == nil && s.onWrite != nil {
		s.onWrite(v)
	}
	return err
}
func (s *spy) Index(i distsys.ArchetypeInterface, idx tla.Value) (distsys.ArchetypeResource, error) {
	return s.inner.Index(i, idx)
}
func (s *spy) Close() error { return s.inner.Close() }

// ---------------------------------------------------------------------------------
// shcounter: generated ANode + the real 2PC resource over net/rpc on the simulated network

func shcounterScenario(w *sim.World) {
	n := 2 + w.Choose(sim.KCfg, 3)
	desc := fmt.Sprintf("shcounter nodes=%d (real 2PC, net/rpc)", n)
	w.Event("cfg %s", desc)
	addr := func(i int) string { return fmt.Sprintf("shc%d:8000", i) }
	id := func(i int) tla.Value { return tla.MakeString(fmt.Sprintf("node%d", i)) }
	res := make([]distsys.ArchetypeResource, n)
	rcv := make([]*resources.TwoPCReceiver, n)
	for i := 0; i < n; i++ {
		i := i
		var hs []resources.ReplicaHandle
		for j := 0; j < n; j++ {
			if j != i {
				h := resources.MakeRPCReplicaHandle(addr(j), id(j))
				hs = append(hs, &h)
			}
		}
		res[i] = resources.NewTwoPC(tla.MakeNumber(0), addr(i), hs, id(i), func(r *resources.TwoPCReceiver) { rcv[i] = r })
	}
	finished := 0
	started := 0
	ctxs := make([]*distsys.MPCalContext, n)
	lastRead := make([]int32, n)
	for i := 0; i < n; i++ {
		i := i
		sp := &spy{inner: res[i], onRead: func(v tla.Value) {
			x := v.AsNumber()
			if x < 0 || int(x) > n {
				w.Fail("shcounter_out_of_range", "node %d reads cntr = %d with %d nodes | %s", i, x, n, desc)
			}
			lastRead[i] = x
		}}
		ctxs[i] = distsys.NewMPCalContext(tla.MakeNumber(int32(i)), shcounter.ANode,
			distsys.DefineConstantValue("NUM_NODES", tla.MakeNumber(int32(n))),
			distsys.EnsureArchetypeRefParam("cntr", sp))
		w.Go(fmt.Sprintf("N%d", i), func() {
			if d := w.Choose(sim.KCfg, 3); d > 0 {
				w.Sleep(time.Duration(d) * 5 * time.Millisecond)
			}
			started++
			err := ctxs[i].Run()
			if err != nil {
				w.Fail("archetype_failed", "node %d: Run returned %v | %s", i, err, desc)
			}
			if int(lastRead[i]) != n {
				w.Fail("CntrValueOK", "node %d finished after reading cntr = %d, NUM_NODES = %d | %s", i, lastRead[i], n, desc)
			}
			finished++
		})
	}
	w.OnStep(func() {
		for i := 0; i < n; i++ {
			_, val, _, _, _, _ := resources.VerifTwoPCSnapshot(res[i])
			if val.IsNumber() && int(val.AsNumber()) > started {
				w.Fail("CntrValueOK", "replica %d holds committed cntr = %v while only %d nodes have started | %s", i, val, started, desc)
			}
		}
	})
	ok := w.Await(func() bool { return finished == n }, 30*time.Minute)
	if w.Failed() {
		return
	}
	if !ok {
		var sb strings.Builder
		for i := 0; i < n; i++ {
			ver, val, acc, from, av, cs := resources.VerifTwoPCSnapshot(res[i])
			fmt.Fprintf(&sb, "replica %d: version %d value %s accepted=%v from %s v%d cs=%s; ", i, ver, ulib.Canon(val), acc, from, av, cs)
		}
		w.Fail("CntrValueOK", "after 30 simulated minutes %d of %d nodes have finished (cntr never reached NUM_NODES everywhere): %s| %s", finished, n, sb.String(), desc)
		return
	}
	w.Sleep(10 * time.Second) // last commits spread
	for i := 0; i < n; i++ {
		_, val, _, _, _, _ := resources.VerifTwoPCSnapshot(res[i])
		if !val.Equal(tla.MakeNumber(int32(n))) {
			w.Fail("CntrValueOK", "every node has finished; replica %d holds cntr = %v, NUM_NODES = %d | %s", i, val, n, desc)
		}
	}
	w.Count("sections", 2*n)
	if n >= 3 {
		w.Probe("shcounter_three_or_more")
	}
	for i := 0; i < n; i++ {
		if rcv[i] != nil {
			_ = resources.CloseTwoPCReceiver(rcv[i])
		}
	}
}

// ---------------------------------------------------------------------------------
// gcounter: generated ANode + the real CRDT resource (GCounter)

func gcounterScenario(w *sim.World) {
	n := 2 + w.Choose(sim.KCfg, 3)
	interval := []time.Duration{5 * time.Millisecond, 50 * time.Millisecond}[w.Choose(sim.KCfg, 2)]
	desc := fmt.Sprintf("gcounter nodes=%d broadcast=%v (real CRDT resource, net/rpc)", n, interval)
	w.Event("cfg %s", desc)
	addr := func(i int) string { return fmt.Sprintf("gc%d:9000", i) }
	finished := 0
	ctxs := make([]*distsys.MPCalContext, n+1)
	last := make([]int32, n+1)
	wrote := make([]bool, n+1)
	stopping := false
	for i := 1; i <= n; i++ {
		i := i
		self := tla.MakeNumber(int32(i))
		var peers []tla.Value
		for p := 1; p <= n; p++ {
			if p != i {
				peers = append(peers, tla.MakeNumber(int32(p)))
			}
		}
		w.Go(fmt.Sprintf("N%d", i), func() {
			if d := w.Choose(sim.KCfg, 3); d > 0 {
				w.Sleep(time.Duration(d) * interval)
			}
			crdt := resources.NewCRDT(self, peers, func(id tla.Value) string { return addr(int(id.AsNumber())) }, resources.GCounter{},
				resources.WithCRDTBroadcastInterval(interval), resources.WithCRDTSendTimeout(2*time.Second), resources.WithCRDTDialTimeout(2*time.Second))
			sp := &spy{inner: crdt,
				onWrite: func(tla.Value) { wrote[i] = true },
				onRead: func(v tla.Value) {
					x := v.AsNumber()
					w.Probe("gcounter_read")
					if x < last[i] {
						w.Fail("counter_decreased", "gcounter node %d reads %d after reading %d | %s", i, x, last[i], desc)
					}
					if int(x) > n {
						w.Fail("gcounter_out_of_range", "gcounter node %d reads %d with %d nodes incrementing once | %s", i, x, n, desc)
					}
					cnt := int32(0)
					for k := 1; k <= n; k++ {
						if wrote[k] {
							cnt++
						}
					}
					if x > cnt {
						w.Fail("gcounter_out_of_range", "gcounter node %d reads %d while only %d increments were ever written | %s", i, x, cnt, desc)
					}
					last[i] = x
				}}
			ctxs[i] = distsys.NewMPCalContext(self, gcounter.ANode,
				distsys.DefineConstantValue("NUM_NODES", tla.MakeNumber(int32(n))),
				distsys.DefineConstantValue("BENCH_NUM_ROUNDS", tla.MakeNumber(0)),
				distsys.EnsureArchetypeRefParam("cntr", resources.NewIncMap(func(index tla.Value) distsys.ArchetypeResource {
					if !index.Equal(self) {
						panic("wrong index")
					}
					return sp
				})),
				distsys.EnsureArchetypeRefParam("c", resources.NewDummy()))
			err := ctxs[i].Run()
			if err != nil {
				w.Fail("archetype_failed", "gcounter node %d: Run returned %v | %s", i, err, desc)
			}
			if !stopping && int(last[i]) != n {
				w.Fail("gcounter_final_value", "gcounter node %d finished after reading %d, NUM_NODES = %d | %s", i, last[i], n, desc)
			}
			finished++
		})
	}
	// Termination is not part of C16 (a node that finishes closes its CRDT resource and
	// stops broadcasting): wait a bounded time, then stop whoever is still waiting.
	ok := w.Await(func() bool { return finished == n }, 2*time.Minute)
	if w.Failed() {
		return
	}
	if ok {
		w.Probe("gcounter_all_finished")
	} else {
		w.Probe("gcounter_some_unfinished")
		stopping = true
		for i := 1; i <= n; i++ {
			if ctxs[i] != nil {
				i := i
				w.Go(fmt.Sprintf("stop%d", i), func() { ctxs[i].Stop() })
			}
		}
		w.Await(func() bool { return finished == n || w.Failed() }, 5*time.Minute)
	}
	w.Count("sections", 2*n)
}

// ---------------------------------------------------------------------------------
// shopcart: generated ANode + the real CRDT resource with the set type the shipped
// bootstrap uses (LWWSet); commands arrive on `in`, every command is answered on `out`.

type cartOp struct {
	node     int
	add      bool
	elem     string
	fed, got time.Duration
	answered bool
	started  bool
}

// buffered channels between harness tasks and the archetype's channel resources: a send
// never blocks (one command in flight per node), a receive polls at scheduling points
func chanSend(ch chan tla.Value, v tla.Value) { ch <- v }

func chanRecv(w *sim.World, ch chan tla.Value, bound time.Duration) (tla.Value, bool) {
	if !w.Await(func() bool { return len(ch) > 0 }, bound) {
		return tla.Value{}, false
	}
	return <-ch, true
}

func cartOf(v tla.Value) []string {
	var out []string
	it := v.AsSet().Iterator()
	for !it.Done() {
		k, _, _ := it.Next()
		out = append(out, k.AsString())
	}
	sort.Strings(out)
	return out
}

func shopcartScenario(w *sim.World) {
	n := 2 + w.Choose(sim.KCfg, 2)
	interval := []time.Duration{5 * time.Millisecond, 50 * time.Millisecond}[w.Choose(sim.KCfg, 2)]
	// a third of the runs use the add-wins set the specification describes (AWORSet) instead of
	// the LWWSet the shipped bootstrap wires in; there each element is commanded by one node
	// only (the others observe), so that the recorded AWORSet finding (C12: a concurrent add and
	// remove of one element by different replicas) cannot occur and every oracle below applies
	aw := w.Choose(sim.KCfg, 3) == 1
	var setType resources.CRDTValue = resources.LWWSet{}
	setName := "LWWSet as in bootstrap.go"
	if aw {
		setType = resources.AWORSet{}
		setName = "AWORSet as in shopcart.tla, one commanding node per element"
		w.Probe("shopcart_aworset")
	}
	desc := fmt.Sprintf("shopcart nodes=%d broadcast=%v (real CRDT resource with %s, net/rpc)", n, interval, setName)
	addr := func(i int) string { return fmt.Sprintf("cart%d:9100", i) }
	elems := []string{"1", "2", "3"}
	var ops []*cartOp
	ins := make([]chan tla.Value, n+1)
	outs := make([]chan tla.Value, n+1)
	ctxs := make([]*distsys.MPCalContext, n+1)
	lastCart := make([][]string, n+1)
	var sb strings.Builder
	for i := 1; i <= n; i++ {
		k := 1 + w.Choose(sim.KOp, 4)
		fmt.Fprintf(&sb, " N%d:", i)
		for j := 0; j < k; j++ {
			o := &cartOp{node: i, add: w.Choose(sim.KOp, 3) != 0, elem: elems[w.Choose(sim.KOp, len(elems))]}
			if aw {
				// elements owned by node i: those whose ordinal is congruent to i modulo n
				var own []string
				for k, e := range elems {
					if k%n == i%n {
						own = append(own, e)
					}
				}
				if len(own) == 0 {
					continue
				}
				o.elem = own[w.Choose(sim.KOp, len(own))]
			}
			ops = append(ops, o)
			fmt.Fprintf(&sb, "%s%s ", map[bool]string{true: "+", false: "-"}[o.add], o.elem)
		}
	}
	desc += sb.String()
	w.Event("cfg %s", desc)
	everAdded := map[string]bool{}
	running := 0
	for i := 1; i <= n; i++ {
		i := i
		self := tla.MakeNumber(int32(i))
		ins[i] = make(chan tla.Value, 8)
		outs[i] = make(chan tla.Value, 8)
		var peers []tla.Value
		for p := 1; p <= n; p++ {
			if p != i {
				peers = append(peers, tla.MakeNumber(int32(p)))
			}
		}
		crdt := resources.NewCRDT(self, peers, func(id tla.Value) string { return addr(int(id.AsNumber())) }, setType,
			resources.WithCRDTBroadcastInterval(interval), resources.WithCRDTSendTimeout(2*time.Second), resources.WithCRDTDialTimeout(2*time.Second))
		ctxs[i] = distsys.NewMPCalContext(self, shopcart.ANode,
			distsys.DefineConstantValue("NumNodes", tla.MakeNumber(int32(n))),
			distsys.DefineConstantValue("ElemSet", tla.MakeSet()),
			distsys.DefineConstantValue("BenchNumRounds", tla.MakeNumber(0)),
			distsys.EnsureArchetypeRefParam("crdt", resources.NewIncMap(func(index tla.Value) distsys.ArchetypeResource {
				if !index.Equal(self) {
					panic("wrong index")
				}
				return crdt
			})),
			distsys.EnsureArchetypeRefParam("in", resources.NewInputChan(ins[i], resources.WithInputChanReadTimeout(20*time.Millisecond))),
			distsys.EnsureArchetypeRefParam("out", resources.NewOutputChan(outs[i])))
		running++
		w.Go(fmt.Sprintf("N%d", i), func() {
			err := ctxs[i].Run()
			if err != nil {
				w.Fail("archetype_failed", "shopcart node %d: Run returned %v | %s", i, err, desc)
			}
			running--
		})
		// the node's client: feeds its commands one at a time and reads the answers
		w.Go(fmt.Sprintf("C%d", i), func() {
			for _, o := range ops {
				if o.node != i {
					continue
				}
				w.Sleep(time.Duration(w.Choose(sim.KOp, 4)) * interval / 2)
				cmd := int32(2)
				if o.add {
					cmd = 1
					everAdded[o.elem] = true
				}
				o.fed = w.Now()
				o.started = true
				chanSend(ins[i], tla.MakeRecord([]tla.RecordField{{Key: S("cmd"), Value: tla.MakeNumber(cmd)}, {Key: S("elem"), Value: S(o.elem)}}))
				v, ok := chanRecv(w, outs[i], 10*time.Minute)
				if !ok {
					w.Fail("shopcart_no_answer", "node %d did not answer command %+v within 10 simulated minutes | %s", i, *o, desc)
					return
				}
				o.got = w.Now()
				o.answered = true
				cart := cartOf(v)
				lastCart[i] = cart
				for _, e := range cart {
					if !everAdded[e] {
						w.Fail("shopcart_phantom_element", "node %d answers cart %v; %q was never added | %s", i, cart, e, desc)
					}
				}
				// the node's own command is reflected in its own answer
				in := false
				for _, e := range cart {
					if e == o.elem {
						in = true
					}
				}
				// (the answer is read in the next critical section: a concurrent command of
				// another node on the same element may legitimately land in between)
				alone := true
				for _, o2 := range ops {
					if o2 != o && o2.elem == o.elem && o2.started && !(o2.answered && o2.got < o.fed) {
						alone = false // overlapped this command
					}
				}
				if alone && in != o.add {
					w.Fail("shopcart_own_command_lost", "node %d executed %s %q and answers cart %v | %s", i, map[bool]string{true: "add", false: "remove"}[o.add], o.elem, cart, desc)
				}
			}
		})
	}
	allAnswered := func() bool {
		for _, o := range ops {
			if !o.answered {
				return false
			}
		}
		return true
	}
	if !w.Await(func() bool { return allAnswered() || w.Failed() }, 30*time.Minute) || w.Failed() {
		if !w.Failed() {
			w.Fail("shopcart_no_answer", "commands unanswered after 30 simulated minutes | %s", desc)
		}
		return
	}
	// every update has been committed; after the broadcast bound all replicas know everything
	w.Sleep(20*interval + 4*time.Second + time.Second)
	// read every replica through one more no-op-free observation: feed a remove of an
	// element nobody uses to each node in turn and compare the answers (each answer is
	// taken after the previous one has spread)
	carts := make([][]string, n+1)
	for i := 1; i <= n; i++ {
		chanSend(ins[i], tla.MakeRecord([]tla.RecordField{{Key: S("cmd"), Value: tla.MakeNumber(2)}, {Key: S("elem"), Value: S("unused")}}))
		v, ok := chanRecv(w, outs[i], 10*time.Minute)
		if !ok {
			w.Fail("shopcart_no_answer", "node %d did not answer the final query | %s", i, desc)
			return
		}
		carts[i] = cartOf(v)
	}
	for i := 2; i <= n; i++ {
		if strings.Join(carts[i], ",") != strings.Join(carts[1], ",") {
			w.Fail("shopcart_diverged", "all updates delivered (equal knowledge), node 1 reads %v and node %d reads %v | %s", carts[1], i, carts[i], desc)
		}
	}
	// last-writer-wins: an element whose latest command started after every other command
	// on it had been answered is present iff that command was an add
	for _, e := range elems {
		var lastOp *cartOp
		for _, o := range ops {
			if o.elem == e && (lastOp == nil || o.fed > lastOp.fed) {
				lastOp = o
			}
		}
		if lastOp == nil {
			continue
		}
		clear := true
		for _, o := range ops {
			if o != lastOp && o.elem == e && o.got >= lastOp.fed {
				clear = false
			}
		}
		if !clear {
			continue
		}
		w.Probe("shopcart_last_writer_checked")
		in := false
		for _, x := range carts[1] {
			if x == e {
				in = true
			}
		}
		if in != lastOp.add {
			w.Fail("shopcart_last_writer", "element %q: the last command (node %d, add=%v) started after every other command on it was answered, yet the converged cart is %v | %s", e, lastOp.node, lastOp.add, carts[1], desc)
		}
	}
	w.Count("sections", len(ops)*2)
	for i := 1; i <= n; i++ {
		i := i
		w.Go(fmt.Sprintf("stop%d", i), func() { ctxs[i].Stop() })
	}
	w.Await(func() bool { return running == 0 || w.Failed() }, 5*time.Minute)
}

func init() {
	subs = append(subs, sub{"shcounter", shcounterScenario}, sub{"gcounter", gcounterScenario}, sub{"shopcart", shopcartScenario})
}
