package c16

import (
	"fmt"

	"github.com/DistCompiler/pgo/distsys/tla"

	"verif/env"
	"verif/envsys"
	"verif/sim"
)

// nestedScenario: generated ACRDTResource archetypes of systems/nestedcrdtimpl (G-counter
// operators of the module's own test) in the spec world of NestedCRDTImpl.tla, driven by
// the spec's Node processes (read / write / pre-commit / commit / abort request protocol).
func nestedScenario(w *sim.World) {
	nn := 1 + w.Choose(sim.KCfg, 3)
	numOps := 1 + w.Choose(sim.KCfg, 6)
	buffer := 1 + w.Choose(sim.KCfg, 3)
	desc := fmt.Sprintf("nestedcrdtimpl nodes=%d NUM_OPS=%d BUFFER_SIZE=%d (G-counter operators)", nn, numOps, buffer)
	w.Event("cfg %s", desc)
	wd := env.NewWorld(w)
	if w.Choose(sim.KCfg, 2) == 1 {
		// injected refusals: an environment resource aborts an attempt at a drawn operation (no step in the spec)
		wd.FaultBudget = 1 + w.Choose(sim.KCfg, 6)
		w.Probe("env_refusals_enabled")
	}
	wd.MaxAbortsAtVersion = 1 << 30 // enabledness of resources is computed from the state (ResHasWork)
	n := envsys.NewNestedCRDT(wd, nn, numOps, buffer)
	stateOf := func(i int) tla.Value {
		v, _ := n.Res[i-1].Local("ACRDTResource.state")
		return v
	}
	entry := func(st tla.Value, key int) int {
		if v, ok := st.AsFunction().Get(N(key)); ok {
			return int(v.AsNumber())
		}
		return 0
	}
	prev := make([]tla.Value, nn+1)
	sectionFloor := make([]int, nn+1) // VIEW(state) of the node's resource when its critical section started
	inSection := make([]bool, nn+1)
	lastRead := make([]int, nn+1)
	check := func(what string) {
		for i := 1; i <= nn; i++ {
			st := stateOf(i)
			// MonotonicState
			if prev[i].IsFunction() {
				it := prev[i].AsFunction().Iterator()
				for !it.Done() {
					k, v, _ := it.Next()
					if nv, ok := st.AsFunction().Get(k); !ok || nv.AsNumber() < v.AsNumber() {
						w.Fail("MonotonicState", "after %s: state[%d][%v] went from %v to %v | %s", what, nn+i, k, v, nv, desc)
					}
				}
			}
			prev[i] = st
			// nothing beyond what was written: own entry = achieved (+ pending while the commit is being acknowledged)
			p := n.Nodes[i-1]
			own := entry(st, nn+i)
			if own != p.WritesAchieved && !(p.PC == "commitAck" && own == p.WritesAchieved+p.WritesPending) {
				w.Fail("nested_counter_parity", "after %s: state[%d][%d] = %d but node %d has %d committed and %d pending increments (pc = %s) | %s", what, nn+i, nn+i, own, i, p.WritesAchieved, p.WritesPending, p.PC, desc)
			}
			for j := 1; j <= nn; j++ {
				if j != i && entry(st, nn+j) > entry(stateOf(j), nn+j) {
					w.Fail("nested_phantom_increment", "after %s: state[%d] counts %d increments of %d, which itself holds %d | %s", what, nn+i, entry(st, nn+j), nn+j, entry(stateOf(j), nn+j), desc)
				}
			}
		}
	}
	wd.AfterStep = func(a *env.Actor, label string, committed bool) {
		if committed {
			check(label + " of " + a.Name)
		}
	}
	wd.Start()
	steps := 0
	aborts := 0
	for ; steps < 4000; steps++ {
		type cand struct {
			res  int
			node *envsys.NodeProc
		}
		var cs []cand
		for i := 1; i <= nn; i++ {
			if n.ResHasWork(i) && !n.Res[i-1].Done() {
				cs = append(cs, cand{res: i})
			}
			if p := n.Nodes[i-1]; n.NodeEnabled(p) {
				cs = append(cs, cand{node: p})
			}
		}
		if len(cs) == 0 {
			break
		}
		c := cs[w.Choose(sim.KSched, len(cs))]
		if c.node == nil {
			a := n.Res[c.res-1]
			wd.Step(a)
			if w.Failed() {
				return
			}
			if a.Done() {
				w.Fail("archetype_failed", "%s ended at %s with error %v / panic %v | %s | %s", a.Name, a.PC, a.Err, a.Panic, wd.Render(), desc)
				return
			}
			continue
		}
		p := c.node
		floorBefore := int(envsys.GCView(stateOf(p.ID)).AsNumber())
		label, ack, fail := n.NodeStep(p, w)
		if fail != "" {
			w.Fail("nested_protocol", "%s | %s", fail, desc)
			return
		}
		switch label {
		case "readReq", "writeReq":
			if !inSection[p.ID] {
				inSection[p.ID] = true
				sectionFloor[p.ID] = floorBefore
				lastRead[p.ID] = -1
			}
		case "readAck":
			v := int(ack.ApplyFunction(S("value")).AsNumber())
			w.Probe("nested_read")
			if v < sectionFloor[p.ID] {
				w.Fail("counter_decreased", "node %d read %d in a critical section that started when its replica already counted %d | %s", p.ID, v, sectionFloor[p.ID], desc)
			}
			if v < lastRead[p.ID] {
				w.Fail("counter_decreased", "node %d read %d after reading %d in the same critical section | %s", p.ID, v, lastRead[p.ID], desc)
			}
			lastRead[p.ID] = v
		case "abortAck":
			inSection[p.ID] = false
			aborts++
			w.Probe("nested_section_aborted")
		case "commitAck":
			inSection[p.ID] = false
			w.Probe("nested_section_committed")
		}
		check(fmt.Sprintf("%s of node %d", label, p.ID))
		if w.Failed() {
			return
		}
	}
	if steps >= 4000 {
		w.Infra("nested scenario did not quiesce in 4000 steps | %s", desc)
		return
	}
	// quiescent: every node Done, nothing in flight. Equal knowledge => equal values.
	total := 0
	for _, p := range n.Nodes {
		if p.PC != "Done" {
			w.Fail("nested_stuck", "node %d stuck at %s with nothing enabled | %s | %s", p.ID, p.PC, wd.Render(), desc)
			return
		}
		total += p.WritesAchieved
	}
	for i := 1; i <= nn; i++ {
		if v := int(envsys.GCView(stateOf(i)).AsNumber()); v != total {
			w.Fail("nested_not_converged", "nothing left to deliver, yet replica %d counts %d and %d increments were committed (states: %v ...) | %s", nn+i, v, total, stateOf(i), desc)
		}
	}
	if aborts > 0 && total > 0 {
		w.Probe("nested_abort_and_commit")
	}
	w.Count("spec_steps", steps)
	wd.StopAll()
}

func init() { subs = append(subs, sub{"nestedcrdtimpl", nestedScenario}) }
