// C16 — the other generated systems keep their specs' safety invariants.
//
// One run = one drawn system:
//
//	level A (spec world, real generated archetypes, mapping macros to the letter):
//	  dqueue        items to exactly one requester, in production order; buffer bounds
//	  loadbalancer  BuffersOk; every request forwarded once and answered by exactly one server
//	  proxy         ProxyOK with a perfect failure detector under any sequence of backend crashes
//	level U (real runtime resources over the simulated network, real generated archetypes):
//	  shcounter     generated ANode + real 2PC: ends at exactly NUM_NODES everywhere
//	  gcounter      generated ANode + real CRDT resource: reads never decrease, end at NUM_NODES
//	  shopcart      generated ANode + real CRDT AWORSet: equal knowledge => equal reads
//	  nestedcrdt    generated NestedCRDTImpl archetypes (see nested.go)
package c16

import (
	"fmt"
	"strings"
	"testing"
	"time"

	"github.com/DistCompiler/pgo/distsys/tla"

	"verif/env"
	"verif/envsys"
	"verif/harness"
	"verif/sim"
)

func N(i int) tla.Value     { return tla.MakeNumber(int32(i)) }
func S(s string) tla.Value  { return tla.MakeString(s) }
func pcName(a *env.Actor) string {
	if a.Done() {
		return "Done"
	}
	return a.PC[strings.Index(a.PC, ".")+1:]
}

// drive runs the spec world under the stream until nothing is enabled or the budget ends.
// It returns the number of steps taken and whether the world deadlocked (no actor enabled
// although none has finished).
func drive(w *sim.World, wd *env.World, budget int, desc string) (steps int, stuck bool) {
	for ; steps < budget; steps++ {
		en := wd.Enabled()
		if len(en) == 0 {
			return steps, true
		}
		a := en[w.Choose(sim.KSched, len(en))]
		wd.Step(a)
		if w.Failed() {
			return steps, false
		}
		if a.Done() && (a.Err != nil || a.Panic != nil) {
			w.Fail("archetype_failed", "%s ended at %s with error %v / panic %v (an assertion of the spec failed in the generated code, or the runtime failed) | %s | %s", a.Name, a.PC, a.Err, a.Panic, wd.Render(), desc)
			return steps, false
		}
	}
	return steps, false
}

// ---------------------------------------------------------------------------------

func dqueueScenario(w *sim.World) {
	nc := 1 + w.Choose(sim.KCfg, 4)
	buffer := 1 + w.Choose(sim.KCfg, 4)
	desc := fmt.Sprintf("dqueue consumers=%d buffer=%d", nc, buffer)
	w.Event("cfg %s", desc)
	wd := env.NewWorld(w)
	if w.Choose(sim.KCfg, 2) == 1 {
		// injected refusals: an environment resource aborts an attempt at a drawn operation (no step in the spec)
		wd.FaultBudget = 1 + w.Choose(sim.KCfg, 6)
		w.Probe("env_refusals_enabled")
	}
	envsys.NewDQueue(wd, nc, buffer, true)
	var requests []int          // consumer ids in the order their requests were committed
	var served int              // requests answered so far
	produced := map[int][]int32{} // per consumer: items addressed to it, in production order
	got := map[int]int{}        // per consumer: items obtained
	var lastItem int32
	wd.AfterStep = func(a *env.Actor, label string, committed bool) {
		if !committed {
			return
		}
		// buffer bounds
		for i := 0; i <= nc; i++ {
			if l := wd.Vars["network"].ApplyFunction(N(i)).AsTuple().Len(); l > buffer {
				w.Fail("buffer_bound", "after %s of %s: network[%d] holds %d messages, BUFFER_SIZE = %d | %s", label, a.Name, i, l, buffer, desc)
			}
		}
		switch label {
		case "AConsumer.c1":
			requests = append(requests, int(a.Self.AsNumber()))
		case "AProducer.p1":
			r, _ := a.Local("AProducer.requester")
			if served >= len(requests) || int(r.AsNumber()) != requests[served] {
				w.Fail("dqueue_wrong_requester", "producer took requester %v but the %d-th committed request came from %v | %s", r, served+1, requests, desc)
			}
		case "AProducer.p2":
			r, _ := a.Local("AProducer.requester")
			item := wd.Vars["stream"].AsNumber()
			if item != lastItem+1 {
				w.Fail("dqueue_item_skipped", "producer sent item %d after item %d | %s", item, lastItem, desc)
			}
			lastItem = item
			if served >= len(requests) || int(r.AsNumber()) != requests[served] {
				w.Fail("dqueue_wrong_requester", "item %d sent to %v but the %d-th committed request came from %v | %s", item, r, served+1, requests, desc)
				return
			}
			produced[requests[served]] = append(produced[requests[served]], item)
			served++
		case "AConsumer.c2":
			c := int(a.Self.AsNumber())
			v := wd.Vars["processor"]
			k := got[c]
			if k >= len(produced[c]) {
				w.Fail("dqueue_unproduced_item", "consumer %d obtained %v but only %d items were ever sent to it | %s", c, v, len(produced[c]), desc)
				return
			}
			if !v.Equal(tla.MakeNumber(produced[c][k])) {
				w.Fail("dqueue_item_order", "consumer %d obtained %v as its item #%d; the producer sent it %v in that order | %s", c, v, k+1, produced[c], desc)
			}
			got[c]++
			w.Probe("dqueue_item_delivered")
		}
	}
	wd.Start()
	steps, stuck := drive(w, wd, 40+w.Choose(sim.KCfg, 200), desc)
	if w.Failed() {
		return
	}
	if stuck {
		w.Fail("deadlock", "no archetype can take a step although none has finished | %s | %s", wd.Render(), desc)
	}
	// every item sent is held by exactly one place: obtained, or still in the addressee's buffer
	for c := 1; c <= nc; c++ {
		inbuf := wd.Vars["network"].ApplyFunction(N(c)).AsTuple().Len()
		if got[c]+inbuf != len(produced[c]) {
			w.Fail("dqueue_item_lost_or_duplicated", "consumer %d: %d items sent, %d obtained, %d in its buffer | %s", c, len(produced[c]), got[c], inbuf, desc)
		}
	}
	if nc >= 2 {
		w.Probe("dqueue_two_or_more_consumers")
	}
	w.Count("spec_steps", steps)
	wd.StopAll()
}

// ---------------------------------------------------------------------------------

func lbScenario(w *sim.World) {
	ns := 1 + w.Choose(sim.KCfg, 3)
	nc := 1 + w.Choose(sim.KCfg, 3)
	buffer := 1 + w.Choose(sim.KCfg, 3)
	desc := fmt.Sprintf("loadbalancer servers=%d clients=%d buffer=%d", ns, nc, buffer)
	w.Event("cfg %s", desc)
	wd := env.NewWorld(w)
	if w.Choose(sim.KCfg, 2) == 1 {
		// injected refusals: an environment resource aborts an attempt at a drawn operation (no step in the spec)
		wd.FaultBudget = 1 + w.Choose(sim.KCfg, 6)
		w.Probe("env_refusals_enabled")
	}
	l := envsys.NewLoadBalancer(wd, ns, nc, buffer, true)
	type cl struct {
		sent, forwarded, answered, received int
		path                               tla.Value
	}
	cls := map[int]*cl{}
	for k := 1; k <= nc; k++ {
		cls[ns+k] = &cl{}
	}
	wd.AfterStep = func(a *env.Actor, label string, committed bool) {
		if !committed {
			return
		}
		for i := 0; i <= ns+nc; i++ {
			if n := wd.Vars["network"].ApplyFunction(N(i)).AsTuple().Len(); n > buffer {
				w.Fail("BuffersOk", "after %s of %s: network[%d] holds %d messages, BUFFER_SIZE = %d | %s", label, a.Name, i, n, buffer, desc)
			}
		}
		switch label {
		case "AClient.clientRequest":
			c := cls[int(a.Self.AsNumber())]
			c.sent++
			req, _ := a.Local("AClient.req")
			c.path = req.ApplyFunction(S("path"))
		case "ALoadBalancer.sendServer":
			m, _ := a.Local("ALoadBalancer.msg")
			c := cls[int(m.ApplyFunction(S("client_id")).AsNumber())]
			if c == nil {
				w.Fail("lb_unknown_client", "load balancer forwarded a request of %v | %s", m, desc)
				return
			}
			c.forwarded++
			if c.forwarded > c.sent {
				w.Fail("lb_request_forwarded_twice", "request #%d of client %v forwarded again (to server %v) | %s", c.sent, m.ApplyFunction(S("client_id")), a.Ctx.IFace().ReadArchetypeResourceLocal("ALoadBalancer.next"), desc)
			}
			nx, _ := a.Local("ALoadBalancer.next")
			if nx.AsNumber() < 1 || int(nx.AsNumber()) > ns {
				w.Fail("lb_not_a_server", "request forwarded to node %v (servers are 1..%d) | %s", nx, ns, desc)
			}
		case "AServer.sendPage":
			m, _ := a.Local("AServer.msg")
			c := cls[int(m.ApplyFunction(S("client_id")).AsNumber())]
			if c == nil {
				w.Fail("lb_unknown_client", "server answered %v | %s", m, desc)
				return
			}
			c.answered++
			if c.answered > c.sent {
				w.Fail("lb_answered_twice", "request #%d of client %v answered by a second server (%s) | %s", c.sent, m.ApplyFunction(S("client_id")), a.Name, desc)
			}
		case "AClient.clientReceive":
			c := cls[int(a.Self.AsNumber())]
			c.received++
			if c.received > c.answered {
				w.Fail("lb_response_from_nowhere", "client %v obtained a response no server sent | %s", a.Self, desc)
			}
			want := envsys.PageFor(c.path)
			if !wd.Vars["out"].Equal(want) {
				w.Fail("lb_wrong_page", "client %v asked for %v and obtained %v | %s", a.Self, c.path, wd.Vars["out"], desc)
			}
			w.Probe("lb_request_answered")
		}
	}
	wd.Start()
	steps, stuck := drive(w, wd, 60+w.Choose(sim.KCfg, 300), desc)
	if w.Failed() {
		return
	}
	if stuck {
		w.Fail("deadlock", "no archetype can take a step although none has finished | %s | %s", wd.Render(), desc)
	}
	// conservation: every request is in exactly one place
	for id, c := range cls {
		if c.sent-c.received > 1 || c.forwarded > c.sent || c.answered > c.forwarded || c.received > c.answered {
			w.Fail("lb_pairing", "client %d: sent %d forwarded %d answered %d received %d | %s", id, c.sent, c.forwarded, c.answered, c.received, desc)
		}
	}
	if ns >= 2 && nc >= 2 {
		w.Probe("lb_two_servers_two_clients")
	}
	_ = l
	w.Count("spec_steps", steps)
	wd.StopAll()
}

// ---------------------------------------------------------------------------------

func proxyScenario(w *sim.World) {
	ns := 1 + w.Choose(sim.KCfg, 3)
	nc := 1 + w.Choose(sim.KCfg, 2)
	explore := w.Choose(sim.KCfg, 4) != 0
	desc := fmt.Sprintf("proxy servers=%d clients=%d exploreFail=%v perfectFD", ns, nc, explore)
	w.Event("cfg %s", desc)
	wd := env.NewWorld(w)
	if w.Choose(sim.KCfg, 2) == 1 {
		// injected refusals: an environment resource aborts an attempt at a drawn operation (no step in the spec)
		wd.FaultBudget = 1 + w.Choose(sim.KCfg, 6)
		w.Probe("env_refusals_enabled")
	}
	p := envsys.NewProxy(wd, ns, nc, explore, true)
	gone := make([]bool, ns+1)
	type outstanding struct{ id, body tla.Value }
	reqs := map[int]*outstanding{}
	wd.AfterStep = func(a *env.Actor, label string, committed bool) {
		if !committed {
			return
		}
		all := true
		for i := 1; i <= ns; i++ {
			if p.ServerGone(i) {
				if !gone[i] {
					gone[i] = true
					w.Probe("proxy_backend_crashed")
				}
			} else {
				all = false
			}
		}
		// ProxyOK as written
		if pcName(p.Proxy) == "sendMsgToClient" {
			pr, _ := p.Proxy.Local("AProxy.proxyResp")
			if pr.ApplyFunction(S("body")).Equal(N(100)) {
				w.Probe("proxy_reports_failure")
				if !all {
					var live []int
					for i := 1; i <= ns; i++ {
						if !gone[i] {
							live = append(live, i)
						}
					}
					w.Fail("ProxyOK", "after %s of %s: proxy is about to report FAIL (pc = sendMsgToClient, proxyResp.body = FAIL) while backends %v have not failed | %s | %s", label, a.Name, live, wd.Render(), desc)
				}
			} else {
				w.Probe("proxy_reports_backend_answer")
			}
		}
		switch label {
		case "AClient.clientLoop":
			if pcName(a) == "clientRcvResp" {
				r, _ := a.Local("AClient.req")
				reqs[int(a.Self.AsNumber())] = &outstanding{r.ApplyFunction(S("id")), r.ApplyFunction(S("body"))}
			}
		case "AClient.clientRcvResp":
			o := reqs[int(a.Self.AsNumber())]
			out := wd.Vars["output"]
			if o == nil {
				w.Fail("proxy_response_without_request", "client %v obtained %v | %s", a.Self, out, desc)
				return
			}
			body := out.ApplyFunction(S("body"))
			if !out.ApplyFunction(S("id")).Equal(o.id) {
				w.Fail("proxy_wrong_response", "client %v: request id %v answered with %v | %s", a.Self, o.id, out, desc)
			}
			if body.Equal(N(100)) {
				// failure reported to the client: every backend must have failed by now
				for i := 1; i <= ns; i++ {
					if !gone[i] {
						w.Fail("ProxyOK", "client %v was told FAIL while backend %d has not failed | %s", a.Self, i, desc)
					}
				}
				w.Probe("client_told_failure")
			} else if body.AsNumber() < 1 || int(body.AsNumber()) > ns {
				w.Fail("proxy_wrong_response", "client %v: response body %v is neither FAIL nor a backend id | %s", a.Self, body, desc)
			} else {
				w.Probe("client_answered_by_backend")
				if body.AsNumber() > 1 {
					w.Probe("answered_by_later_backend")
				}
			}
			reqs[int(a.Self.AsNumber())] = nil
		}
	}
	wd.Start()
	steps, stuck := drive(w, wd, 80+w.Choose(sim.KCfg, 400), desc)
	if w.Failed() {
		return
	}
	_ = stuck // with crashed backends and stale responses the spec itself may quiesce
	w.Count("spec_steps", steps)
	wd.StopAll()
}

// ---------------------------------------------------------------------------------

type sub struct {
	name string
	run  func(*sim.World)
}

var subs = []sub{
	{"dqueue", dqueueScenario},
	{"loadbalancer", lbScenario},
	{"proxy", proxyScenario},
}

func scenario(w *sim.World) {
	k := w.Choose(sim.KCfg, len(subs))
	w.Probe("system_" + subs[k].name)
	subs[k].run(w)
}

func configure(seed uint64, tier string) sim.RunConfig {
	x := sim.SplitMix64(seed ^ 0xc16)
	cfg := sim.RunConfig{
		MaxSteps:    2_000_000,
		MaxSim:      3 * time.Hour,
		PreemptProb: []float64{0.05, 0.2, 0.4}[x%3],
		// the generated `wait` labels busy-retry a failed await: charge realistic time per step
		StepCost: []time.Duration{100 * time.Microsecond, time.Millisecond}[(x>>4)%2],
	}
	if (x>>8)%3 == 0 {
		cfg.StallProb = 0.01
		cfg.StallMax = 100 * time.Millisecond
	}
	return cfg
}

func TestWorker(t *testing.T) {
	harness.Worker(t, harness.Spec{
		Property:   "C16",
		Configure:  configure,
		Scenario:   scenario,
		NonTrivial: func(r *sim.Result) bool { return r.Counts["spec_steps"] >= 10 || r.Counts["sections"] >= 2 },
	})
}
