// C10 — nondeterministic choices are in range and no enabled alternative is starved.
// The real round-robin fairness counter is driven through MPCalContext.Run by a label
// whose attempts consult generated choice points and fail (await false) until a target
// combination; between phases the structure changes (ids, bounds, depth), with or
// without a commit, with or without a change of label.
package c10

import (
	"fmt"
	"strings"
	"testing"

	"github.com/DistCompiler/pgo/distsys"
	"github.com/DistCompiler/pgo/distsys/tla"

	"verif/harness"
	"verif/sim"
)

type point struct {
	id    string
	bound uint
}

type phase struct {
	label    int
	pts      []point
	target   []uint
	window   bool // fail exactly P attempts, then require that all P combinations occurred once
	commit   bool // how this phase ends: commit (Goto) or another failed attempt (structure changes under retry)
	vectors  [][]uint
	attempts int
}

func (p *phase) product() int {
	n := 1
	for _, q := range p.pts {
		n *= int(q.bound)
	}
	return n
}

func (p *phase) String() string {
	var sb strings.Builder
	fmt.Fprintf(&sb, "L%d[", p.label)
	for i, q := range p.pts {
		if i > 0 {
			sb.WriteString(" ")
		}
		fmt.Fprintf(&sb, "%s<%d", q.id, q.bound)
	}
	fmt.Fprintf(&sb, "] target=%v window=%v commit=%v", p.target, p.window, p.commit)
	return sb.String()
}

func genPhases(w *sim.World) []*phase {
	n := 1 + w.Choose(sim.KCfg, 5)
	var out []*phase
	var prev *phase
	for i := 0; i < n; i++ {
		ph := &phase{}
		if prev == nil {
			ph.label = 0
		} else if w.Choose(sim.KOp, 3) == 0 {
			ph.label = (prev.label + 1) % 3
		} else {
			ph.label = prev.label
		}
		k := 1 + w.Choose(sim.KOp, 4)
		keep := 0
		if prev != nil && prev.label == ph.label {
			// prefix-stable change: keep the first `keep` points of the previous structure
			keep = w.Choose(sim.KOp, len(prev.pts)+1)
		}
		for j := 0; j < k; j++ {
			if j < keep {
				ph.pts = append(ph.pts, prev.pts[j])
				continue
			}
			if prev != nil && prev.label == ph.label && j < len(prev.pts) && w.Choose(sim.KOp, 2) == 1 {
				// same choice point, only its bound changes (a set that grew or shrank)
				ph.pts = append(ph.pts, point{id: prev.pts[j].id, bound: uint(1 + w.Choose(sim.KOp, 6))})
				continue
			}
			ph.pts = append(ph.pts, point{id: fmt.Sprintf("p%d.%d.%d", i, j, w.Choose(sim.KOp, 2)), bound: uint(1 + w.Choose(sim.KOp, 6))})
		}
		if keep > 0 && keep >= k {
			// same prefix, shorter or equal structure
			ph.pts = append([]point{}, prev.pts[:k]...)
		}
		for _, q := range ph.pts {
			ph.target = append(ph.target, uint(w.Choose(sim.KOp, int(q.bound))))
		}
		ph.window = w.Choose(sim.KOp, 3) == 0
		ph.commit = w.Choose(sim.KOp, 2) == 0
		if prev != nil && prev.label != ph.label {
			prev.commit = true // a label can only change through a commit
		}
		out = append(out, ph)
		prev = ph
	}
	out[len(out)-1].commit = true
	return out
}

func eq(a, b []uint) bool {
	if len(a) != len(b) {
		return false
	}
	for i := range a {
		if a[i] != b[i] {
			return false
		}
	}
	return true
}

func scenario(w *sim.World) {
	phases := genPhases(w)
	var desc []string
	for _, p := range phases {
		desc = append(desc, p.String())
	}
	w.Event("phases %s", strings.Join(desc, " ; "))
	cur := 0
	total := 0
	finish := func(p *phase) {
		// oracle for a finished phase
		P := p.product()
		seen := map[string]int{}
		for i, v := range p.vectors {
			k := fmt.Sprint(v)
			if j, dup := seen[k]; dup {
				w.Fail("combination_repeated", "phase %s: attempts %d and %d of %d (product of bounds %d) used the same combination %v although the section consulted the same choice points on every attempt; all vectors: %v | all phases: %s", p, j+1, i+1, len(p.vectors), P, v, p.vectors, strings.Join(desc, " ; "))
			}
			seen[k] = i
		}
		if p.window && len(seen) != P {
			w.Fail("window_incomplete", "phase %s: %d consecutive attempts covered %d of %d combinations", p, len(p.vectors), len(seen), P)
		}
		if p.window {
			w.Probe("full_window_checked")
		}
		if len(p.pts) >= 3 {
			w.Probe("depth_ge_3")
		}
	}
	body := func(iface distsys.ArchetypeInterface) error {
		p := phases[cur]
		var vec []uint
		for _, q := range p.pts {
			v := iface.NextFairnessCounter(q.id, q.bound)
			if v >= q.bound {
				w.Fail("out_of_range", "choice %s returned %d with bound %d in phase %s", q.id, v, q.bound, p)
			}
			vec = append(vec, v)
		}
		p.vectors = append(p.vectors, vec)
		p.attempts++
		total++
		P := p.product()
		done := false
		if p.window {
			done = p.attempts >= P
		} else {
			done = eq(vec, p.target)
			if !done && p.attempts >= P {
				finish(p) // reports a repeated combination if there is one
				w.Fail("starved", "phase %s: target %v not chosen within %d attempts (product of bounds); vectors %v", p, p.target, P, p.vectors)
			}
		}
		if !done {
			return distsys.ErrCriticalSectionAborted
		}
		finish(p)
		cur++
		if cur == len(phases) {
			return iface.Goto("A.Done")
		}
		nx := phases[cur]
		if p.commit {
			if nx.label == p.label {
				w.Probe("same_label_after_commit")
			} else {
				w.Probe("label_change")
			}
			return iface.Goto(fmt.Sprintf("A.L%d", nx.label))
		}
		w.Probe("structure_change_under_retry")
		return distsys.ErrCriticalSectionAborted
	}
	arch := distsys.MPCalArchetype{
		Name: "A", Label: "A.L0",
		JumpTable: distsys.MakeMPCalJumpTable(
			distsys.MPCalCriticalSection{Name: "A.L0", Body: body},
			distsys.MPCalCriticalSection{Name: "A.L1", Body: body},
			distsys.MPCalCriticalSection{Name: "A.L2", Body: body},
			distsys.MPCalCriticalSection{Name: "A.Done", Body: func(distsys.ArchetypeInterface) error { return distsys.ErrDone }},
		),
		ProcTable: distsys.MakeMPCalProcTable(),
		PreAmble:  func(distsys.ArchetypeInterface) {},
	}
	ctx := distsys.NewMPCalContext(tla.MakeString("self"), arch)
	var pan any
	var err error
	func() {
		defer func() {
			if x := recover(); x != nil {
				pan = x
			}
		}()
		err = ctx.Run()
	}()
	if w.Failed() {
		return
	}
	if pan != nil {
		w.Fail("panic", "Run panicked in phase %d (%s): %v", cur, desc, pan)
	}
	if err != nil {
		w.Fail("run_error", "Run returned %v", err)
	}
	w.Count("attempts", total)
	w.Count("phases", len(phases))
}

func TestWorker(t *testing.T) {
	harness.Worker(t, harness.Spec{
		Property:  "C10",
		Configure: func(seed uint64, tier string) sim.RunConfig { return sim.RunConfig{MaxSteps: 1_000_000} },
		Scenario:  scenario,
		NonTrivial: func(r *sim.Result) bool {
			return r.Counts["attempts"] > r.Counts["phases"]
		},
		Describe: func(r *sim.Result) any {
			return map[string]any{"events": r.Events[:min(len(r.Events), 3)], "probes": r.Probes, "attempts": r.Counts["attempts"]}
		},
	})
}
