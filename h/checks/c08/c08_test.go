// C08 — the generated Raft KV store keeps the Raft safety invariants.
// Level A: all archetypes of systems/raftkvs/raftkvs.go (five per server, clients,
// crashers) on the real runtime in the spec world; per-link FIFO delivery in any
// interleaving of links, every election/client time-out and failure-detector outcome a
// stream decision, crash-stop of a minority at label boundaries (the spec's crashers).
package c08

import (
	"strings"
	"testing"

	"verif/harness"
	"verif/raftrun"
	"verif/sim"
)

func scenario(w *sim.World) {
	out := raftrun.Run(w, raftrun.Options{})
	for k, v := range out.Probes {
		for i := 0; i < v; i++ {
			w.Probe(k)
		}
	}
	w.Count("spec_steps", out.Steps)
	w.Count("servers", out.R.N)
	if len(out.Failures) > 0 {
		p := strings.SplitN(out.Failures[0], "|", 2)
		w.Fail(p[0], "%s", p[1])
	}
}

func TestWorker(t *testing.T) {
	harness.Worker(t, harness.Spec{
		Property:  "C08",
		Configure: func(seed uint64, tier string) sim.RunConfig { return sim.RunConfig{MaxSteps: 3_000_000, StepCost: 1000} },
		Scenario:  scenario,
		NonTrivial: func(r *sim.Result) bool {
			return r.Counts["spec_steps"] >= 50 && r.Counts["servers"] >= 2
		},
		Describe: func(r *sim.Result) any {
			return map[string]any{"events": r.Events[:min(len(r.Events), 2)], "probes": r.Probes, "spec_steps": r.Counts["spec_steps"]}
		},
	})
}
