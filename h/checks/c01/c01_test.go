// C01 — critical sections are atomic across every resource they touch.
// A generated program of critical sections over a drawn mix of REAL resources runs in
// MPCalContext.Run; attempts fail at drawn positions (body, a resource operation, a
// resource's pre-commit, or a real cause such as a read time-out). Every read is
// compared with a reference model of the committed abstract state plus the attempt's
// own writes; outputs, delivered messages and files are compared at the end.
package c01

import (
	"fmt"
	"strings"
	"testing"
	"time"

	"github.com/DistCompiler/pgo/distsys"
	"github.com/DistCompiler/pgo/distsys/hashmap"
	"github.com/DistCompiler/pgo/distsys/resources"
	"github.com/DistCompiler/pgo/distsys/tla"
	"github.com/DistCompiler/pgo/distsys/trace"

	"verif/harness"
	"verif/sim"
	"verif/sim/sfs"
	"verif/sim/snet"
	"verif/ulib"
)

var kinds = []string{"local", "cell", "idxcell", "incmap", "hashmap", "inchan", "outchan", "shared", "file", "mbox_out", "mbox_in", "persistent", "crdt", "twopc"}

type resInst struct {
	*ulib.ResDecl
	readable, writable bool
	indices            []tla.Value // allowed indices (nil = scalar)
	outCh              chan tla.Value
	isLocal            bool
	strVals            bool
	addr               string
	// readCheck, if set, judges a read instead of string equality with the model (resources
	// whose value also reflects what peers did); it returns what it expected on a mismatch
	readCheck func(got tla.Value, modelWant string) (bool, string)
	// afterCommittedRead is told every value a read returned in an attempt that committed
	afterCommittedRead func(got tla.Value)
	pendingReads       []tla.Value
}

// counterModel: a grow-only counter as the archetype that owns it sees its own part: the
// committed increments plus the increments of the attempt in flight.
type counterModel struct {
	Committed int32
	work      int32
	// Totals lists the running total after each committed section that wrote (the only
	// values of this node's part that a peer may ever observe)
	Totals     []int32
	Committing bool // the body of the attempt has finished and its commit is under way
}

func (m *counterModel) Begin() { m.work = 0; m.Committing = false }
func (m *counterModel) Read(string) (string, bool) {
	return ulib.Canon(num(m.Committed + m.work)), false
}
func (m *counterModel) Write(_ string, v tla.Value) { m.work += v.AsNumber() }
func (m *counterModel) Commit() {
	if m.work != 0 {
		m.Committed += m.work
		m.Totals = append(m.Totals, m.Committed)
	}
	m.work = 0
	m.Committing = false
}
func (m *counterModel) Abort() { m.work = 0; m.Committing = false }

type env struct {
	w        *sim.World
	res      []*resInst
	secs     []ulib.Section
	uniq     int32
	cfgs     []distsys.MPCalContextConfigFn
	stops    []func()
	dials    map[string]int // connections opened towards each mbox_in resource
	srcStops []func() // sources are stopped when A reaches Done (before A's mailbox closes)
	finals   []func()
	preDone  []func() // run by A inside its Done section, before its resources close
	peers    int
	desc     []string
}

func (e *env) fresh() int32 { e.uniq++; return 1000 + e.uniq }

func num(i int32) tla.Value { return tla.MakeNumber(i) }

func (e *env) addRes(kind string, i int) {
	w := e.w
	name := fmt.Sprintf("r%d", i)
	ri := &resInst{ResDecl: &ulib.ResDecl{Name: name, Kind: kind}}
	var real distsys.ArchetypeResource
	switch kind {
	case "local":
		ri.isLocal = true
		ri.readable, ri.writable = true, true
		m := ulib.NewCellModel(ulib.Canon(num(0)))
		ri.Model = m
	case "cell":
		real = distsys.NewLocalArchetypeResource(num(0))
		ri.readable, ri.writable = true, true
		ri.Model = ulib.NewCellModel(ulib.Canon(num(0)))
	case "idxcell":
		init := tla.MakeTuple(num(0), num(0), num(0))
		real = distsys.NewLocalArchetypeResource(init)
		ri.readable, ri.writable = true, true
		ri.indices = []tla.Value{num(1), num(2), num(3)}
		ri.Model = ulib.NewCellModel(ulib.Canon(num(0)))
	case "incmap":
		real = resources.NewIncMap(func(index tla.Value) distsys.ArchetypeResource {
			return distsys.NewLocalArchetypeResource(num(0))
		})
		ri.readable, ri.writable = true, true
		ri.indices = []tla.Value{num(1), num(2), tla.MakeString("k")}
		ri.Model = ulib.NewCellModel(ulib.Canon(num(0)))
	case "hashmap":
		hm := hashmap.New[distsys.ArchetypeResource]()
		ri.indices = []tla.Value{num(1), num(2), tla.MakeString("k")}
		for _, k := range ri.indices {
			hm.Set(k, distsys.NewLocalArchetypeResource(num(0)))
		}
		real = resources.NewHashMap(hm)
		ri.readable, ri.writable = true, true
		ri.Model = ulib.NewCellModel(ulib.Canon(num(0)))
	case "inchan":
		ch := make(chan tla.Value, 64)
		m := &ulib.InQueueModel{}
		n := 2 + w.Choose(sim.KCfg, 10)
		for k := 0; k < n; k++ {
			v := num(e.fresh())
			ch <- v
			m.All = append(m.All, ulib.Canon(v))
		}
		to := []time.Duration{time.Millisecond, 20 * time.Millisecond}[w.Choose(sim.KCfg, 2)]
		real = resources.NewInputChan(ch, resources.WithInputChanReadTimeout(to))
		ri.readable = true
		ri.Model = m
	case "outchan":
		ch := make(chan tla.Value, 256)
		ri.outCh = ch
		real = resources.NewOutputChan(ch)
		ri.writable = true
		m := &ulib.OutQueueModel{}
		ri.Model = m
		e.finals = append(e.finals, func() {
			var got []string
			for len(ch) > 0 {
				got = append(got, ulib.Canon(<-ch))
			}
			if strings.Join(got, ",") != strings.Join(m.Committed, ",") {
				w.Fail("output_mismatch", "output channel %s carried %v, committed sections wrote %v | %s", name, got, m.Committed, e.describe())
			}
		})
	case "shared", "persistent":
		to := []time.Duration{time.Millisecond, 50 * time.Millisecond}[w.Choose(sim.KCfg, 2)]
		mgr := resources.NewLocalSharedManager(num(0), resources.WithLocalSharedResourceTimeout(to))
		real = mgr.MakeLocalShared()
		ri.readable, ri.writable = true, true
		ri.Model = ulib.NewCellModel(ulib.Canon(num(0)))
		if kind == "persistent" {
			db := openDB(w)
			if db == nil {
				return
			}
			real = resources.MakePersistent(name, db, mgr.MakeLocalShared())
			m := ri.Model.(*ulib.CellModel)
			e.finals = append(e.finals, func() {
				got, ok := readDB(db, "pres-"+name)
				want, written := m.Committed[""]
				if written && (!ok || got != want) {
					w.Fail("persistent_mismatch", "database holds %q (present=%v) for %s, last committed write was %s | %s", got, ok, name, want, e.describe())
				}
				if !written && ok {
					w.Fail("persistent_mismatch", "database holds %q for %s although no section that wrote it committed | %s", got, name, e.describe())
				}
				db.Close()
			})
		}
	case "file":
		fs := sfs.Of(w)
		wd := fmt.Sprintf("/wd%d", i)
		ri.indices = []tla.Value{tla.MakeString("a.txt"), tla.MakeString("b.txt")}
		ri.strVals = true
		m := ulib.NewCellModel("")
		for _, k := range ri.indices {
			fs.Files[wd+"/"+k.AsString()] = []byte("init")
			m.Committed[ulib.IdxKey([]tla.Value{k})] = ulib.Canon(tla.MakeString("init"))
		}
		real = resources.NewFileSystem(wd)
		ri.readable, ri.writable = true, true
		ri.Model = m
		e.finals = append(e.finals, func() {
			for _, k := range ri.indices {
				want := m.Committed[ulib.IdxKey([]tla.Value{k})]
				got := ulib.Canon(tla.MakeString(string(fs.Files[wd+"/"+k.AsString()])))
				if got != want {
					w.Fail("file_mismatch", "file %s holds %s, committed state is %s | %s", k, got, want, e.describe())
				}
			}
		})
	case "twopc":
		// a variable replicated with the real two-phase-commit resource: A proposes, two passive
		// replicas (their own resources and RPC receivers on other nodes) accept
		e.peers++
		ids := []string{fmt.Sprintf("tpc%d-a", i), fmt.Sprintf("tpc%d-b", i), fmt.Sprintf("tpc%d-c", i)}
		var rs [3]distsys.ArchetypeResource
		var rcv [3]*resources.TwoPCReceiver
		for k := 0; k < 3; k++ {
			k := k
			rs[k] = resources.NewTwoPC(num(0), ids[k]+":6000", nil, tla.MakeString(ids[k]), func(r *resources.TwoPCReceiver) { rcv[k] = r })
		}
		for k := 0; k < 3; k++ {
			var hs []resources.ReplicaHandle
			for j := 0; j < 3; j++ {
				if j != k {
					h := resources.MakeRPCReplicaHandle(ids[j]+":6000", tla.MakeString(ids[j]))
					hs = append(hs, &h)
				}
			}
			rs[k].(*resources.TwoPCArchetypeResource).SetReplicas(hs)
		}
		real = rs[0]
		ri.readable, ri.writable = true, true
		m := ulib.NewCellModel(ulib.Canon(num(0)))
		ri.Model = m
		e.finals = append(e.finals, func() {
			// every replica installed the last committed value (Commit is sent to every replica;
			// nothing is lost on this calm network), and nothing an aborted attempt wrote
			want, written := m.Committed[""]
			if !written {
				want = ulib.Canon(num(0))
			}
			agreed := func() bool {
				for k := 1; k < 3; k++ {
					var rep resources.TwoPCResponse
					if err := rcv[k].Receive(resources.TwoPCRequest{RequestType: resources.GetState}, &rep); err != nil || ulib.Canon(rep.Value) != want {
						return false
					}
				}
				return true
			}
			agreeBound := time.Minute
			if w.Config().StallProb > 0 {
				agreeBound = 10 * time.Minute // stalled senders: "eventually" only
			}
			if !w.Await(agreed, agreeBound) {
				var got []string
				for k := 1; k < 3; k++ {
					var rep resources.TwoPCResponse
					_ = rcv[k].Receive(resources.TwoPCRequest{RequestType: resources.GetState}, &rep)
					got = append(got, fmt.Sprintf("%s (version %d)", ulib.Canon(rep.Value), rep.Version))
				}
				w.Fail("replica_mismatch", "replicas of the two-phase-commit variable %s hold %v, the last committed write was %s | %s", name, got, want, e.describe())
			}
		})
		e.stops = append(e.stops, func() {
			for k := 1; k < 3; k++ {
				rs[k].Close()
			}
		})
	case "crdt":
		// a grow-only counter in the real CRDT resource, with one peer that commits (and aborts)
		// increments of its own in distinct high bits; A's own increments stay below 1<<16
		e.peers++
		addrs := map[int32]string{0: fmt.Sprintf("crdt%d-a:7300", i), 1: fmt.Sprintf("crdt%d-p:7300", i)}
		interval := []time.Duration{5 * time.Millisecond, 50 * time.Millisecond}[w.Choose(sim.KCfg, 2)]
		mk := func(id int32) distsys.ArchetypeResource {
			return resources.NewCRDT(num(id), []tla.Value{num(1 - id)}, func(x tla.Value) string { return addrs[x.AsNumber()] }, resources.GCounter{},
				resources.WithCRDTBroadcastInterval(interval), resources.WithCRDTSendTimeout(time.Second), resources.WithCRDTDialTimeout(time.Second))
		}
		real = mk(0)
		ri.readable, ri.writable = true, true
		m := &counterModel{}
		ri.Model = m
		ri.addr = "crdt"
		peer := startCRDTPeer(e, name, mk, m, interval)
		lastPeerBits := int32(0)
		ri.readCheck = func(got tla.Value, modelWant string) (bool, string) {
			g := got.AsNumber()
			own, bits := g&0xffff, g>>16
			if ulib.Canon(num(own)) != modelWant {
				return false, modelWant + " (own part)"
			}
			// the peer's part: only increments of attempts that committed (or are committing), and
			// nothing seen before is lost
			if bits&^peer.visibleBits() != 0 {
				return false, fmt.Sprintf("own part %s plus only committed increments of the peer (bits %b); the read carries bits %b", modelWant, peer.visibleBits(), bits)
			}
			if lastPeerBits&^bits != 0 {
				return false, fmt.Sprintf("peer increments %b seen by an earlier read have disappeared (now %b)", lastPeerBits, bits)
			}
			return true, ""
		}
		ri.afterCommittedRead = func(got tla.Value) { lastPeerBits |= got.AsNumber() >> 16 }
		// bounded delivery once updates have stopped; judged while A's resource is still open (A
		// waits in its Done section: a replica that closes right after its last commit has left
		// before the broadcast and promises nothing)
		e.preDone = append(e.preDone, func() {
			want := m.Committed
			bound := 20*interval + 3*time.Second
			if w.Config().StallProb > 0 {
				// injected stalls (up to 2 s each, at any yield of the broadcaster, the RPC handler,
				// the merger or the reader) never stop in this check: only "eventually" can be judged
				bound = 10 * time.Minute
			}
			ok := w.Await(func() bool { return peer.lastOwn == want || peer.gone }, bound)
			if !ok && !w.Failed() {
				w.Fail("crdt_update_not_delivered", "the peer of %s reads %d for A's part %v after A's last section; A's committed increments sum to %d | %s", name, peer.lastOwn, bound, want, e.describe())
			}
		})
	case "mbox_out":
		// A sends to a sink archetype on another node through real TCP mailboxes
		e.peers++
		addr := fmt.Sprintf("sink%d:7000", i)
		opts := mboxOpts(w)
		real = resources.NewTCPMailboxes(func(idx tla.Value) (resources.MailboxKind, string) {
			return resources.MailboxesRemote, addr
		}, opts...)
		ri.writable = true
		ri.indices = []tla.Value{num(1)}
		m := &ulib.OutQueueModel{}
		ri.Model = m
		sink := startSink(e, addr, opts)
		e.finals = append(e.finals, func() {
			ok := w.Await(func() bool { return len(sink.received) >= len(m.Committed) }, 2*time.Minute)
			if ok && strings.Join(sink.received, ",") != strings.Join(m.Committed, ",") && sameMultiset(sink.received, m.Committed) && snet.Of(w).DialsTo(addr) > 1 {
				w.Fail("mailbox_reorder_across_connections", "sink of %s obtained %v, committed sections sent %v: same messages, another order, after the sender reconnected (%d connections) | %s", name, sink.received, m.Committed, snet.Of(w).DialsTo(addr), e.describe())
			}
			// recorded finding (same as C06): a commit retried on a new connection publishes its
			// batch again. Attributed only if the sender did reconnect and the sink obtained
			// exactly the committed sequence plus repeated copies of messages in it.
			if ok && snet.Of(w).DialsTo(addr) > 1 && len(sink.received) > len(m.Committed) && strings.Join(dropRepeats(sink.received), ",") == strings.Join(m.Committed, ",") {
				w.Fail("duplicate_after_reconnect", "sink of %s obtained %v, committed sections sent %v: committed messages delivered again after the sender reconnected (%d connections) | %s", name, sink.received, m.Committed, snet.Of(w).DialsTo(addr), e.describe())
			}
			if !ok || strings.Join(sink.received, ",") != strings.Join(m.Committed, ",") {
				w.Fail("delivery_mismatch", "sink of %s obtained %v, committed sections sent %v | %s", name, sink.received, m.Committed, e.describe())
			}
		})
	case "mbox_in":
		e.peers++
		addr := fmt.Sprintf("a%d:7100", i)
		opts := mboxOpts(w)
		real = resources.NewTCPMailboxes(func(idx tla.Value) (resources.MailboxKind, string) {
			return resources.MailboxesLocal, addr
		}, opts...)
		ri.readable = true
		ri.MayBlock = true
		ri.addr = addr
		ri.indices = []tla.Value{num(1)}
		m := &ulib.InQueueModel{}
		n := 2 + w.Choose(sim.KCfg, 8)
		var msgs []tla.Value
		for k := 0; k < n; k++ {
			v := num(e.fresh())
			msgs = append(msgs, v)
			m.All = append(m.All, ulib.Canon(v))
		}
		ri.Model = m
		startSource(e, addr, opts, msgs)
	}
	if !ri.isLocal {
		ri.Faulty = ulib.NewFaulty(w, name, real)
		e.cfgs = append(e.cfgs, distsys.EnsureArchetypeRefParam(name, ri.Faulty))
	}
	e.res = append(e.res, ri)
}

func mboxOpts(w *sim.World) []resources.MailboxesOption {
	tos := []time.Duration{5 * time.Millisecond, 100 * time.Millisecond, time.Second}
	return []resources.MailboxesOption{
		resources.WithMailboxesReceiveChanSize(1 + w.Choose(sim.KCfg, 4)),
		resources.WithMailboxesReadTimeout(tos[w.Choose(sim.KCfg, 3)]),
		resources.WithMailboxesWriteTimeout(tos[w.Choose(sim.KCfg, 3)]),
		resources.WithMailboxesDialTimeout(tos[w.Choose(sim.KCfg, 3)]),
	}
}

type sinkT struct {
	received []string
	pending  []string
}

// startSink runs an archetype that receives from its local TCP mailbox forever.
func startSink(e *env, addr string, opts []resources.MailboxesOption) *sinkT {
	w := e.w
	s := &sinkT{}
	rec := &ulib.Recorder{OnEvent: func(ev trace.Event) {
		if !ev.IsAbort {
			s.received = append(s.received, s.pending...)
		}
		s.pending = nil
	}}
	arch := distsys.MPCalArchetype{
		Name: "S", Label: "S.l", RequiredRefParams: []string{"S.net"},
		JumpTable: distsys.MakeMPCalJumpTable(distsys.MPCalCriticalSection{Name: "S.l", Body: func(iface distsys.ArchetypeInterface) error {
			net, err := iface.RequireArchetypeResourceRef("S.net")
			if err != nil {
				return err
			}
			v, err := iface.Read(net, []tla.Value{num(1)})
			if err != nil {
				return err
			}
			s.pending = append(s.pending, ulib.Canon(v))
			return iface.Goto("S.l")
		}}),
		ProcTable: distsys.MakeMPCalProcTable(),
		PreAmble:  func(distsys.ArchetypeInterface) {},
	}
	var ctx *distsys.MPCalContext
	ready := false
	w.Go("sink", func() {
		mb := resources.NewTCPMailboxes(func(idx tla.Value) (resources.MailboxKind, string) {
			return resources.MailboxesLocal, addr
		}, opts...)
		ctx = distsys.NewMPCalContext(tla.MakeString("sink"), arch,
			distsys.EnsureArchetypeRefParam("net", mb), distsys.SetTraceRecorder(rec))
		ready = true
		_ = ctx.Run()
	})
	e.stops = append(e.stops, func() {
		if ready {
			ctx.Stop()
		}
	})
	return s
}

// startSource runs an archetype that sends msgs, one or two per section, to addr.
func startSource(e *env, addr string, opts []resources.MailboxesOption, msgs []tla.Value) {
	w := e.w
	pos := 0
	sent := 0
	rec := &ulib.Recorder{OnEvent: func(ev trace.Event) {
		w.Event("Q attempt ends abort=%v pos=%d sent=%d", ev.IsAbort, pos, sent)
		if !ev.IsAbort {
			pos += sent
		}
		sent = 0
	}}
	two := w.Choose(sim.KCfg, 2) == 1
	arch := distsys.MPCalArchetype{
		Name: "Q", Label: "Q.l", RequiredRefParams: []string{"Q.net"},
		JumpTable: distsys.MakeMPCalJumpTable(
			distsys.MPCalCriticalSection{Name: "Q.l", Body: func(iface distsys.ArchetypeInterface) error {
				if pos >= len(msgs) {
					return iface.Goto("Q.Done")
				}
				net, err := iface.RequireArchetypeResourceRef("Q.net")
				if err != nil {
					return err
				}
				sent = 0
				k := 1
				if two && pos+1 < len(msgs) {
					k = 2
				}
				for j := 0; j < k; j++ {
					if err := iface.Write(net, []tla.Value{num(1)}, msgs[pos+j]); err != nil {
						return err
					}
					sent++
				}
				return iface.Goto("Q.l")
			}},
			distsys.MPCalCriticalSection{Name: "Q.Done", Body: func(distsys.ArchetypeInterface) error { return distsys.ErrDone }},
		),
		ProcTable: distsys.MakeMPCalProcTable(),
		PreAmble:  func(distsys.ArchetypeInterface) {},
	}
	var ctx *distsys.MPCalContext
	ready := false
	delay := time.Duration(w.Choose(sim.KCfg, 3)) * 50 * time.Millisecond
	w.Go("source", func() {
		if delay > 0 {
			w.Sleep(delay)
		}
		mb := resources.NewTCPMailboxes(func(idx tla.Value) (resources.MailboxKind, string) {
			return resources.MailboxesRemote, addr
		}, opts...)
		ctx = distsys.NewMPCalContext(tla.MakeString("source"), arch,
			distsys.EnsureArchetypeRefParam("net", mb), distsys.SetTraceRecorder(rec))
		ready = true
		_ = ctx.Run()
	})
	e.srcStops = append(e.srcStops, func() {
		if ready {
			ctx.Stop()
		}
	})
}

// crdtPeer is the second replica of a "crdt" resource: its own archetype commits or aborts
// increments in distinct bits >= 16 and keeps reading; every read is judged against what A
// has committed.
type crdtPeer struct {
	bitState []int // per bit: 0 in flight, 1 committing/committed, 2 aborted
	lastOwn  int32 // A's part in the peer's latest read
	gone     bool  // the peer's archetype has ended (run error): nothing more will be read
}

func (p *crdtPeer) visibleBits() int32 {
	var m int32
	for b, st := range p.bitState {
		if st == 1 {
			m |= 1 << b
		}
	}
	return m
}

func startCRDTPeer(e *env, name string, mk func(int32) distsys.ArchetypeResource, am *counterModel, interval time.Duration) *crdtPeer {
	w := e.w
	p := &crdtPeer{}
	nw := w.Choose(sim.KCfg, 4) // increments the peer tries
	type plan struct {
		hold  time.Duration
		fails int
	}
	var plans []plan
	for k := 0; k < nw; k++ {
		pl := plan{hold: time.Duration(w.Choose(sim.KCfg, 3)) * interval}
		if w.Choose(sim.KFault, 3) == 1 {
			pl.fails = 1
		}
		plans = append(plans, pl)
	}
	stop := false
	cur := -1
	pos, tries := 0, 0
	var seenOwn int32
	rec := &ulib.Recorder{OnEvent: func(ev trace.Event) {
		if cur >= 0 && ev.IsAbort {
			p.bitState[cur] = 2
		}
		cur = -1
	}}
	judge := func(v int32, when string) {
		own, bits := v&0xffff, v>>16
		// A's part: the total after some committed section of A, or of the one committing now;
		// never a value that includes increments of an attempt that is in flight or aborted
		ok := own == 0
		for _, t := range am.Totals {
			if own == t {
				ok = true
			}
		}
		if am.Committing && own == am.Committed+am.work {
			ok = true
		}
		if !ok {
			w.Fail("crdt_peer_saw_uncommitted", "%s: the peer of %s reads %d for A's part; A's committed sections give the totals %v (committing now: %v, would give %d): the read contains increments of an attempt that did not commit | %s", when, name, own, am.Totals, am.Committing, am.Committed+am.work, e.describe())
		}
		if own < seenOwn {
			w.Fail("crdt_peer_lost_state", "%s: the peer of %s reads %d for A's part after having read %d | %s", when, name, own, seenOwn, e.describe())
		}
		seenOwn = own
		p.lastOwn = own
		for b, st := range p.bitState {
			if st == 2 && bits&(1<<b) != 0 {
				w.Fail("crdt_aborted_increment_visible", "%s: the peer of %s reads its own aborted increment (bit %d) | %s", when, name, b, e.describe())
			}
		}
	}
	arch := distsys.MPCalArchetype{
		Name: "P", Label: "P.l", RequiredRefParams: []string{"P.c"},
		JumpTable: distsys.MakeMPCalJumpTable(
			distsys.MPCalCriticalSection{Name: "P.l", Body: func(iface distsys.ArchetypeInterface) error {
				if stop {
					return iface.Goto("P.Done")
				}
				c, err := iface.RequireArchetypeResourceRef("P.c")
				if err != nil {
					return err
				}
				cur = -1
				if pos < len(plans) {
					pl := plans[pos]
					b := len(p.bitState)
					p.bitState = append(p.bitState, 0)
					cur = b
					if err := iface.Write(c, nil, num(1<<(16+b))); err != nil {
						return err
					}
					if pl.hold > 0 {
						w.Sleep(pl.hold)
					}
					if tries < pl.fails {
						tries++
						return distsys.ErrCriticalSectionAborted
					}
					p.bitState[b] = 1
					pos, tries = pos+1, 0
					return iface.Goto("P.l")
				}
				w.Sleep(interval)
				v, err := iface.Read(c, nil)
				if err != nil {
					return err
				}
				judge(v.AsNumber(), "read section of the peer")
				return iface.Goto("P.l")
			}},
			distsys.MPCalCriticalSection{Name: "P.Done", Body: func(distsys.ArchetypeInterface) error { return distsys.ErrDone }},
		),
		ProcTable: distsys.MakeMPCalProcTable(),
		PreAmble:  func(distsys.ArchetypeInterface) {},
	}
	delay := time.Duration(w.Choose(sim.KCfg, 3)) * interval
	w.Go("crdt-peer", func() {
		if delay > 0 {
			w.Sleep(delay)
		}
		res := mk(1)
		ctx := distsys.NewMPCalContext(tla.MakeString("peer-"+name), arch, distsys.EnsureArchetypeRefParam("c", res), distsys.SetTraceRecorder(rec))
		if err := ctx.Run(); err != nil {
			w.Fail("run_error", "the peer of %s: Run returned %v | %s", name, err, e.describe())
		}
		p.gone = true
	})
	e.stops = append(e.stops, func() { stop = true })
	return p
}

func (e *env) describe() string { return strings.Join(e.desc, " ; ") }

func (e *env) genProgram() {
	w := e.w
	n := 1 + w.Choose(sim.KCfg, 6)
	inputReads := map[int]int{} // reads planned per input resource: never more than it will be offered
	for s := 0; s < n; s++ {
		var sec ulib.Section
		k := 1 + w.Choose(sim.KOp, 6)
		for j := 0; j < k; j++ {
			ri := w.Choose(sim.KOp, len(e.res))
			r := e.res[ri]
			op := ulib.Op{Res: ri}
			if len(r.indices) > 0 {
				op.Idx = []tla.Value{r.indices[w.Choose(sim.KOp, len(r.indices))]}
			}
			wantWrite := w.Choose(sim.KOp, 2) == 1
			switch {
			case r.readable && (!r.writable || !wantWrite):
				op.Kind = ulib.OpRead
				if q, ok := r.Model.(*ulib.InQueueModel); ok {
					if inputReads[ri] >= len(q.All) {
						continue // the program must not demand more input than exists
					}
					inputReads[ri]++
				}
			default:
				op.Kind = ulib.OpWrite
				if r.strVals {
					op.Val = tla.MakeString(fmt.Sprintf("v%d", e.fresh()))
				} else {
					op.Val = num(e.fresh())
				}
			}
			sec.Ops = append(sec.Ops, op)
		}
		if len(sec.Ops) == 0 {
			continue
		}
		sec.BodyFailAt = -1
		switch w.Choose(sim.KFault, 4) {
		case 1:
			sec.BodyFailAt = w.Choose(sim.KFault, len(sec.Ops)+1)
			sec.BodyFailTimes = 1 + w.Choose(sim.KFault, 2)
		case 2:
			// a resource touched by this section refuses an operation
			var touched []int
			seen := map[int]bool{}
			for _, o := range sec.Ops {
				if !seen[o.Res] && e.res[o.Res].Faulty != nil {
					seen[o.Res] = true
					touched = append(touched, o.Res)
				}
			}
			if len(touched) > 0 {
				sec.ResFaultRes = touched[w.Choose(sim.KFault, len(touched))]
				m := []string{"read", "write", "index", "precommit"}[w.Choose(sim.KFault, 4)]
				sec.ResFault = ulib.FaultPlan{Method: m, Nth: w.Choose(sim.KFault, 2)}
				sec.ResFaultTimes = 1 + w.Choose(sim.KFault, 2)
			}
		}
		e.secs = append(e.secs, sec)
	}
	var rs []*ulib.ResDecl
	for _, r := range e.res {
		rs = append(rs, r.ResDecl)
		e.desc = append(e.desc, r.Name+":"+r.Kind)
	}
	for i, s := range e.secs {
		var ops []string
		for _, o := range s.Ops {
			ops = append(ops, o.String(rs))
		}
		f := ""
		if s.BodyFailAt >= 0 {
			f = fmt.Sprintf(" [body fails after %d ops x%d]", s.BodyFailAt, s.BodyFailTimes)
		}
		if s.ResFault.Method != "" {
			f += fmt.Sprintf(" [%s refuses %s#%d x%d]", e.res[s.ResFaultRes].Name, s.ResFault.Method, s.ResFault.Nth, s.ResFaultTimes)
		}
		e.desc = append(e.desc, fmt.Sprintf("s%d{%s}%s", i, strings.Join(ops, "; "), f))
	}
}

func scenario(w *sim.World) {
	e := &env{w: w, dials: map[string]int{}}
	nRes := 1 + w.Choose(sim.KCfg, 5)
	for i := 0; i < nRes; i++ {
		e.addRes(kinds[w.Choose(sim.KCfg, len(kinds))], i)
	}
	if len(e.res) == 0 {
		return
	}
	e.genProgram()
	w.Event("program %s", e.describe())

	attempts := make([]int, len(e.secs))  // failed-by-plan attempts so far
	rattempts := make([]int, len(e.secs)) // resource-fault attempts so far
	inAttempt := false
	curSec := -1
	totalAttempts := 0
	begin := func(s int) {
		curSec = s
		inAttempt = true
		totalAttempts++
		w.Event("A begin attempt of s%d", s)
		for _, r := range e.res {
			r.pendingReads = nil
			r.Model.Begin()
			if r.Faulty != nil {
				r.Faulty.Arm(ulib.FaultPlan{})
			}
		}
		sec := e.secs[s]
		if sec.ResFault.Method != "" && rattempts[s] < sec.ResFaultTimes {
			rattempts[s]++
			e.res[sec.ResFaultRes].Faulty.Arm(sec.ResFault)
		}
	}
	rec := &ulib.Recorder{OnEvent: func(ev trace.Event) {
		if !inAttempt {
			return // the attempt of the Done label, or a pc read
		}
		inAttempt = false
		w.Event("A attempt of s%d ends abort=%v", curSec, ev.IsAbort)
		for _, r := range e.res {
			if ev.IsAbort {
				r.Model.Abort()
			} else {
				r.Model.Commit()
				if r.afterCommittedRead != nil {
					for _, v := range r.pendingReads {
						r.afterCommittedRead(v)
					}
				}
			}
			r.pendingReads = nil
		}
		if ev.IsAbort {
			w.Probe("attempt_aborted")
		} else {
			w.Probe("attempt_committed")
		}
	}}
	handle := func(iface distsys.ArchetypeInterface, r *resInst) (distsys.ArchetypeResourceHandle, error) {
		if r.isLocal {
			return iface.RequireArchetypeResource("A." + r.Name), nil
		}
		return iface.RequireArchetypeResourceRef("A." + r.Name)
	}
	body := func(s int) func(distsys.ArchetypeInterface) error {
		return func(iface distsys.ArchetypeInterface) error {
			begin(s)
			sec := e.secs[s]
			failNow := sec.BodyFailAt >= 0 && attempts[s] < sec.BodyFailTimes
			touched := map[int]bool{}
			wrote := false
			for i, o := range sec.Ops {
				if failNow && i == sec.BodyFailAt {
					attempts[s]++
					w.Fault("await_false")
					if wrote && len(touched) >= 3 {
						w.Probe("abort_after_write_3_resources")
					}
					return distsys.ErrCriticalSectionAborted
				}
				r := e.res[o.Res]
				touched[o.Res] = true
				h, err := handle(iface, r)
				if err != nil {
					return err
				}
				key := ulib.IdxKey(o.Idx)
				if o.Kind == ulib.OpRead {
					got, err := iface.Read(h, o.Idx)
					want, blocked := r.Model.Read(key)
					w.Event("A read %s%s -> %s err=%v (model %s blocked=%v)", r.Name, key, ulib.Canon(got), err, want, blocked)
					if err != nil {
						if err != distsys.ErrCriticalSectionAborted {
							return err
						}
						// legitimate causes: injected refusal, empty input, time-out
						if q, ok := r.Model.(*ulib.InQueueModel); ok && !blocked {
							q.Unread()
						}
						// resources with a time-out (input channel, mailbox, shared variable) may
						// abort a read even when a value is available: a stalled process finds both
						// the value and the expired timer ready, and select may take the timer
						timed := r.MayBlock || r.Kind == "inchan" || r.Kind == "shared" || r.Kind == "persistent"
						if !blocked && !timed && (r.Faulty == nil || !r.Faulty.Fired) {
							w.Fail("spurious_abort", "read of %s%s aborted although a value was available and no fault was injected | %s", r.Name, key, e.describe())
						}
						w.Probe("abort_in_read")
						return err
					}
					if q, ok := r.Model.(*ulib.InQueueModel); ok && r.Kind == "mbox_in" && (blocked || ulib.Canon(got) != want) {
						// a message obtained AGAIN after the sender went over to a new connection
						// (its commit was retried there): recorded finding (C06 duplicate_after_reconnect)
						again := false
						for _, x := range q.All[:q.Consumed] {
							if x == ulib.Canon(got) {
								again = true
							}
						}
						if again && snet.Of(w).DialsTo(r.addr) > 1 {
							w.Fail("duplicate_after_reconnect", "read of %s returned %s, which a committed section had already consumed, after the sender reconnected (%d connections) | %s", r.Name, ulib.Canon(got), snet.Of(w).DialsTo(r.addr), e.describe())
						}
					}
					if blocked {
						w.Fail("read_invented_value", "read of %s%s returned %s although every offered input had been consumed by committed sections | %s", r.Name, key, ulib.Canon(got), e.describe())
					}
					if r.readCheck != nil {
						if ok, exp := r.readCheck(got, want); !ok {
							w.Fail("read_mismatch", "section s%d op %d: read of %s%s returned %s; expected %s | %s", s, i, r.Name, key, ulib.Canon(got), exp, e.describe())
						}
						r.pendingReads = append(r.pendingReads, got)
					} else if ulib.Canon(got) != want {
						if q, ok := r.Model.(*ulib.InQueueModel); ok && r.Kind == "mbox_in" {
							// a LATER committed message of the sender obtained before an earlier one,
							// after the sender went over to a new connection: known finding (C06)
							later := false
							for _, x := range q.All[q.Consumed:] {
								if x == ulib.Canon(got) {
									later = true
								}
							}
							e.dials[r.Name] = snet.Of(w).DialsTo(r.addr)
							if later && e.dials[r.Name] > 1 {
								w.Fail("mailbox_reorder_across_connections", "read of %s returned %s before %s: a later committed message overtook an earlier one after the sender reconnected (%d connections) | %s", r.Name, ulib.Canon(got), want, e.dials[r.Name], e.describe())
							}
						}
						w.Fail("read_mismatch", "section s%d op %d: read of %s%s returned %s; the last committed state plus this attempt's own writes give %s | %s", s, i, r.Name, key, ulib.Canon(got), want, e.describe())
					}
					w.Count("reads_checked", 1)
				} else {
					if err := iface.Write(h, o.Idx, o.Val); err != nil {
						if err != distsys.ErrCriticalSectionAborted {
							return err
						}
						w.Probe("abort_in_write")
						return err
					}
					r.Model.Write(key, o.Val)
					wrote = true
				}
			}
			if failNow && sec.BodyFailAt == len(sec.Ops) {
				attempts[s]++
				w.Fault("await_false")
				if wrote && len(touched) >= 3 {
					w.Probe("abort_after_write_3_resources")
				}
				return distsys.ErrCriticalSectionAborted
			}
			next := "A.Done"
			if s+1 < len(e.secs) {
				next = fmt.Sprintf("A.s%d", s+1)
			}
			for _, r := range e.res {
				if cm, ok := r.Model.(*counterModel); ok {
					cm.Committing = true // unless a pre-commit refuses, this attempt's increments become visible from here on
				}
			}
			return iface.Goto(next)
		}
	}
	var secs []distsys.MPCalCriticalSection
	for s := range e.secs {
		secs = append(secs, distsys.MPCalCriticalSection{Name: fmt.Sprintf("A.s%d", s), Body: body(s)})
	}
	secs = append(secs, distsys.MPCalCriticalSection{Name: "A.Done", Body: func(distsys.ArchetypeInterface) error {
		// stop the feeders first: a sender retrying against a mailbox that is closing
		// (Close sleeps 500 ms) would otherwise spin through the step budget
		for _, st := range e.srcStops {
			st()
			sim.Yield()
		}
		e.srcStops = nil
		for _, f := range e.preDone {
			f()
		}
		return distsys.ErrDone
	}})
	var req []string
	for _, r := range e.res {
		if !r.isLocal {
			req = append(req, "A."+r.Name)
		}
	}
	arch := distsys.MPCalArchetype{
		Name: "A", Label: "A.s0", RequiredRefParams: req,
		JumpTable: distsys.MakeMPCalJumpTable(secs...),
		ProcTable: distsys.MakeMPCalProcTable(),
		PreAmble: func(iface distsys.ArchetypeInterface) {
			for _, r := range e.res {
				if r.isLocal {
					iface.EnsureArchetypeResourceLocal("A."+r.Name, num(0))
				}
			}
		},
	}
	cfgs := append(e.cfgs, distsys.SetTraceRecorder(rec))
	ctx := distsys.NewMPCalContext(tla.MakeString("self"), arch, cfgs...)
	done := false
	var runErr error
	w.Go("A", func() {
		runErr = ctx.Run()
		done = true
	})
	if !w.Await(func() bool { return done }, 20*time.Minute) {
		w.Fail("no_progress", "program did not finish within 20 simulated minutes (section s%d, %d attempts) | %s", curSec, totalAttempts, e.describe())
	}
	if runErr != nil {
		w.Fail("run_error", "Run returned %v | %s", runErr, e.describe())
	}
	for _, f := range e.finals {
		f()
	}
	for _, st := range append(e.srcStops, e.stops...) {
		st()
	}
	for _, r := range e.res {
		w.Probe("kind_" + r.Kind)
	}
	w.Count("attempts", totalAttempts)
	w.Count("resources", len(e.res))
}

func configure(seed uint64, tier string) sim.RunConfig {
	x := sim.SplitMix64(seed ^ 0xc01)
	cfg := sim.RunConfig{
		MaxSteps:    400_000,
		MaxSim:      2 * time.Hour,
		PreemptProb: []float64{0.02, 0.1, 0.3}[x%3],
		StepCost:    []time.Duration{2 * time.Microsecond, 20 * time.Microsecond, 200 * time.Microsecond}[(x>>4)%3],
	}
	if (x>>8)%3 == 0 {
		cfg.StallProb = 0.01
		cfg.StallMax = 2 * time.Second
	}
	return cfg
}

func TestWorker(t *testing.T) {
	harness.Worker(t, harness.Spec{
		Property:  "C01",
		Configure: configure,
		Scenario:  scenario,
		NonTrivial: func(r *sim.Result) bool {
			return r.Probes["attempt_aborted"] > 0 && r.Counts["reads_checked"] > 0
		},
		Describe: func(r *sim.Result) any {
			return map[string]any{"events": r.Events[:min(len(r.Events), 2)], "probes": r.Probes, "faults": r.Faults, "attempts": r.Counts["attempts"], "reads_checked": r.Counts["reads_checked"]}
		},
	})
}

// dropRepeats keeps the first occurrence of every message.
func dropRepeats(a []string) []string {
	seen := map[string]bool{}
	var out []string
	for _, x := range a {
		if !seen[x] {
			seen[x] = true
			out = append(out, x)
		}
	}
	return out
}

func sameMultiset(a, b []string) bool {
	if len(a) != len(b) {
		return false
	}
	m := map[string]int{}
	for _, x := range a {
		m[x]++
	}
	for _, x := range b {
		m[x]--
	}
	for _, v := range m {
		if v != 0 {
			return false
		}
	}
	return true
}
