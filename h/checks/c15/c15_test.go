// C15 — the generated lock service grants the lock to one client at a time, in order.
// The REAL generated archetypes (systems/locksvc/locksvc.go) run on the real distsys
// core in the level-A spec world: the spec's bag network (any delivery order) or
// per-mailbox FIFO, every interleaving of client and server labels drawn from the stream.
package c15

import (
	"fmt"
	"testing"

	"github.com/DistCompiler/pgo/distsys/tla"

	"verif/env"
	"verif/envsys"
	"verif/harness"
	"verif/sim"
)

const (
	lockMsg   = 1
	unlockMsg = 2
	grantMsg  = 3
)

func grantsIn(box tla.Value) int {
	n := 0
	for _, e := range env.BagElems(box) {
		if e.IsNumber() && e.AsNumber() == grantMsg {
			n++
		}
	}
	return n
}

func scenario(w *sim.World) {
	n := 1 + w.Choose(sim.KCfg, 8)
	fifo := w.Choose(sim.KCfg, 2) == 1
	wd := env.NewWorld(w)
	if w.Choose(sim.KCfg, 2) == 1 {
		// injected refusals: an environment resource aborts an attempt at a drawn operation (no step in the spec)
		wd.FaultBudget = 1 + w.Choose(sim.KCfg, 6)
		w.Probe("env_refusals_enabled")
	}
	s := envsys.NewLockSvc(wd, n, fifo)
	w.Event("cfg clients=%d fifo=%v", n, fifo)
	desc := fmt.Sprintf("clients=%d fifo=%v", n, fifo)

	requested := map[int32]bool{} // LockMsg sent, UnlockMsg not yet
	var recvOrder []int32         // clients in the order the server RECEIVED their LockMsg
	var grantOrder []int32
	holders := 0
	prevGrants := make([]int, n+1)

	wd.AfterStep = func(a *env.Actor, label string, committed bool) {
		s.Settle(committed)
		if !committed {
			return
		}
		net := wd.Vars["network"]
		hl := wd.Vars["hasLock"]
		// mutual exclusion
		cnt := 0
		for c := 1; c <= n; c++ {
			if hl.ApplyFunction(tla.MakeNumber(int32(c))).AsBool() {
				cnt++
			}
		}
		if cnt > 1 {
			w.Fail("two_holders", "after %s of %s: %d clients have hasLock = TRUE | %s | %s", label, a.Name, cnt, wd.Render(), desc)
		}
		switch label {
		case "AClient.acquireLock":
			requested[a.Self.AsNumber()] = true
		case "AClient.unlock":
			requested[a.Self.AsNumber()] = false
			holders--
		case "AClient.criticalSection":
			holders++
			if holders > 1 {
				w.Fail("two_holders", "client %v entered its critical section while another client had not yet unlocked | %s", a.Self, desc)
			}
		case "AServer.serverReceive":
			m, _ := a.Local("AServer.msg")
			if m.ApplyFunction(tla.MakeString("type")).AsNumber() == lockMsg {
				recvOrder = append(recvOrder, m.ApplyFunction(tla.MakeString("from")).AsNumber())
			}
		case "AServer.serverRespond":
			q, _ := a.Local("AServer.q")
			for c := 1; c <= n; c++ {
				g := grantsIn(net.ApplyFunction(tla.MakeNumber(int32(c))))
				if g > prevGrants[c] {
					// a grant was issued to c in this step
					if q.AsTuple().Len() == 0 || q.AsTuple().Get(0).AsNumber() != int32(c) {
						w.Fail("grant_not_to_head", "server granted the lock to client %d, which is not at the head of its queue %s | %s", c, q, desc)
					}
					if !requested[int32(c)] {
						w.Fail("grant_without_request", "server granted the lock to client %d, which has no outstanding request | %s", c, desc)
					}
					grantOrder = append(grantOrder, int32(c))
					k := len(grantOrder) - 1
					if k >= len(recvOrder) || recvOrder[k] != int32(c) {
						w.Fail("grant_out_of_order", "grants so far %v, but lock requests reached the server in the order %v | %s", grantOrder, recvOrder, desc)
					}
					if g-prevGrants[c] > 1 {
						w.Fail("double_grant", "client %d was granted the lock twice in one step | %s", c, desc)
					}
				}
			}
		}
		for c := 1; c <= n; c++ {
			prevGrants[c] = grantsIn(net.ApplyFunction(tla.MakeNumber(int32(c))))
		}
	}
	wd.Start()
	steps := 0
	for steps < 40*(n+1)+200 {
		en := wd.Enabled()
		if len(en) == 0 {
			break
		}
		a := en[w.Choose(sim.KSched, len(en))]
		wd.Step(a)
		steps++
		if w.Failed() {
			return
		}
		if a.Done() && (a.Err != nil || a.Panic != nil) {
			w.Fail("archetype_failed", "%s ended with error %v / panic %v at %s (an assertion of the spec failed in the generated code) | %s | %s", a.Name, a.Err, a.Panic, a.PC, wd.Render(), desc)
		}
	}
	// every client must have run to completion: lock, critical section, unlock
	for _, c := range s.Clients {
		if !c.Done() {
			w.Fail("client_stuck", "client %v never finished (blocked at %s after %d steps; nothing else is enabled) | %s | %s", c.Self, c.PC, steps, wd.Render(), desc)
		}
	}
	if len(grantOrder) != n {
		w.Fail("grant_count", "%d clients, %d grants | %s", n, len(grantOrder), desc)
	}
	w.Count("spec_steps", wd.Steps)
	w.Count("clients", n)
	if n >= 3 {
		w.Probe("three_or_more_clients")
	}
	if fifo {
		w.Probe("fifo_network")
	} else {
		w.Probe("bag_network")
	}
	wd.StopAll()
}

func TestWorker(t *testing.T) {
	harness.Worker(t, harness.Spec{
		Property:  "C15",
		Configure: func(seed uint64, tier string) sim.RunConfig { return sim.RunConfig{MaxSteps: 400_000, StepCost: 1000} },
		Scenario:  scenario,
		NonTrivial: func(r *sim.Result) bool {
			return r.Counts["clients"] >= 2
		},
		Describe: func(r *sim.Result) any {
			return map[string]any{"events": r.Events[:min(len(r.Events), 2)], "probes": r.Probes, "spec_steps": r.Counts["spec_steps"]}
		},
	})
}
