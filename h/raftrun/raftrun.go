// Package raftrun runs the generated Raft KV archetypes in the level-A spec world with
// a seeded schedule and evaluates the spec's safety invariants after every committed
// step; it also records the clients' operation history.
package raftrun

import (
	"fmt"

	"github.com/DistCompiler/pgo/distsys/tla"

	"verif/env"
	"verif/envsys"
	"verif/sim"
	"verif/tlc"
)

type Op struct {
	Client int
	Put    bool
	Key    string
	Value  string // written (Put) or returned (Get; "" = not found)
	OK     bool   // Get: found
	Call   int64
	Return int64 // 0 = never answered
	Sends  int   // how many times the client sent the request (retries after time-outs)
}

type Outcome struct {
	R        *envsys.Raft
	Failures []string // "rule|detail"
	History  []Op
	Trace    tlc.Trace
	Desc     string
	Steps    int
	Probes   map[string]int
	// FailedActor: the archetype that ended with an error (an assertion of the spec failed in Go)
	FailedActor *env.Actor
}

func (o *Outcome) fail(rule, format string, a ...any) {
	o.Failures = append(o.Failures, rule+"|"+fmt.Sprintf(format, a...)+" | "+o.Desc)
}

type Options struct {
	RecordTrace  bool
	MaxSteps     int
	NoFinalReads bool // skip the final-read phase (faults stop, one Get per key)
	BagNetwork   bool // the spec's unordered bag instead of per-link FIFO
	Small        bool // at most 3 servers and 2 clients (C02: TLC evaluates every step)
	Quick        bool // with Small: 2-3 servers, 2 clients, buffer 2 (C02 quick tier: few TLC starts)
}

func S(s string) tla.Value { return tla.MakeString(s) }

func Run(w *sim.World, opt Options) *Outcome {
	out := &Outcome{Probes: map[string]int{}}
	n := 1 + w.Choose(sim.KCfg, 5)
	c := 1 + w.Choose(sim.KCfg, 3)
	if opt.Small {
		if n > 3 {
			n = 3
		}
		if c > 2 {
			c = 2
		}
	}
	if opt.Small && opt.Quick {
		if n < 2 {
			n = 2
		}
		c = 2
	}
	maxFail := 0
	explore := w.Choose(sim.KCfg, 2) == 1 && n >= 3
	if explore {
		maxFail = 1 + w.Choose(sim.KCfg, (n-1)/2)
	}
	buf := 2 + w.Choose(sim.KCfg, 5)
	nOps := 1 + w.Choose(sim.KCfg, 6)
	if opt.Small {
		// few distinct constant combinations, so that traces share TLC runs
		buf = []int{2, 4}[w.Choose(sim.KCfg, 2)]
		if opt.Quick {
			buf = 2
		}
		if nOps > 4 {
			nOps = 4
		}
		if maxFail > 1 {
			maxFail = 1
		}
	}
	keys := []string{"k1", "k2"}[:1+w.Choose(sim.KCfg, 2)]
	strings := append([]string{}, keys...)
	nv := nOps * c
	if opt.Small {
		keys = []string{"k1", "k2"}[:len(keys)]
		strings = []string{"k1", "k2"}
		nv = 8
	}
	for i := 0; i < nv; i++ {
		strings = append(strings, fmt.Sprintf("v%d", i))
	}
	wd := env.NewWorld(w)
	if w.Choose(sim.KCfg, 2) == 1 {
		// injected refusals: an environment resource aborts an attempt at a drawn operation (no step in the spec)
		wd.FaultBudget = 1 + w.Choose(sim.KCfg, 6)
		w.Probe("env_refusals_enabled")
	}
	// one more client, idle until the final-read phase: it has no request of the main phase
	// pending (a client stuck behind a crashed or cut-off server would delay the final reads)
	reader := 0
	nClients := c
	if !opt.NoFinalReads {
		nClients = c + 1
		reader = c + 1
	}
	r := envsys.NewRaft(wd, n, nClients, explore, maxFail, buf, !opt.BagNetwork, strings)
	r.CoinP0 = []float64{0.5, 0.8, 0.95}[w.Choose(sim.KCfg, 3)]
	out.R = r
	out.Desc = fmt.Sprintf("servers=%d clients=%d exploreFail=%v maxFail=%d buffer=%d ops/client=%d keys=%v coinP0=%.2f fifo=%v", n, c, explore, maxFail, buf, nOps, keys, r.CoinP0, !opt.BagNetwork)
	w.Event("cfg %s", out.Desc)

	// client requests: unique Put values
	issued := make([]int, nClients+1)
	uniq := 0
	pending := map[int]*Op{} // client -> op in flight
	elections := 0
	// adaptive workload: after a leader change following an acknowledged Put, the next
	// request is usually a Get of that key (a lost acknowledged write becomes visible)
	ackedPutKey, electionsAtAck := "", 0
	opsSinceAck, deposeAfterOps := 0, 0
	patientReads := false // patient mode, between the acknowledged Put and the depose: only Gets are issued
	// final reads: once the adversaries have finished (or the step budget is used up) every
	// fault stops, pending requests complete, and one Get per key is issued: an acknowledged
	// write that was lost shows in the history even if no client happened to ask again
	final, finalReading := false, false
	finalQ := map[int][]tla.Value{}
	r.NextReq = func(k int) (tla.Value, bool) {
		if k == reader && !final {
			return tla.Value{}, false
		}
		if final {
			if q := finalQ[k]; len(q) > 0 {
				return q[0], true // taken off the queue when the request step commits
			}
			return tla.Value{}, false
		}
		if issued[k] >= nOps {
			return tla.Value{}, false
		}
		if ackedPutKey != "" && elections > electionsAtAck && w.Choose(sim.KOp, 4) != 0 {
			key := ackedPutKey
			ackedPutKey = ""
			out.Probes["get_after_leader_change"]++
			return tla.MakeRecord([]tla.RecordField{{Key: S("type"), Value: S("get")}, {Key: S("key"), Value: S(key)}}), true
		}
		key := keys[w.Choose(sim.KOp, len(keys))]
		if !(patientReads && ackedPutKey != "" && elections == electionsAtAck) && w.Choose(sim.KOp, 2) == 0 {
			v := fmt.Sprintf("v%d", uniq)
			uniq++
			return tla.MakeRecord([]tla.RecordField{{Key: S("type"), Value: S("put")}, {Key: S("key"), Value: S(key)}, {Key: S("value"), Value: S(v)}}), true
		}
		return tla.MakeRecord([]tla.RecordField{{Key: S("type"), Value: S("get")}, {Key: S("key"), Value: S(key)}}), true
	}

	// previous observation, for the action properties
	prevLog := make([]tla.Value, n+1)
	prevState := make([]string, n+1)
	prevTerm := make([]int32, n+1)
	prevCommit := make([]int32, n+1)
	for i := 1; i <= n; i++ {
		prevLog[i] = r.G("log", i)
		prevState[i] = r.G("state", i).AsString()
		prevTerm[i] = r.G("currentTerm", i).AsNumber()
		prevCommit[i] = r.G("commitIndex", i).AsNumber()
	}
	seenFig8 := false
	type committed struct {
		entry tla.Value
		term  int32
		by    int
	}
	var committedAt []committed // index k-1: the entry first seen committed at index k
	invariants := func(label string, a *env.Actor) {
		logs := make([][]tla.Value, n+1)
		for i := 1; i <= n; i++ {
			it := r.G("log", i).AsTuple().Iterator()
			for !it.Done() {
				_, e := it.Next()
				logs[i] = append(logs[i], e)
			}
		}
		term := func(e tla.Value) int32 { return e.ApplyFunction(S("term")).AsNumber() }
		// LeaderCompleteness, as the property states it: an entry committed in a term is in
		// the log of every leader of a later term. The term in which an entry is committed is
		// the current term of the first server seen with commitIndex >= its index. (The
		// predicate of that name in raftkvs.tla compares the leader's term with the term of
		// the ENTRY instead; a cut-off, stale leader of a term between the entry's term and
		// the term of its commit falsifies that stronger predicate in correct Raft, so it is
		// not used as the oracle.)
		for i := 1; i <= n; i++ {
			ti, ci := r.G("currentTerm", i).AsNumber(), int(r.G("commitIndex", i).AsNumber())
			for k := len(committedAt) + 1; k <= ci && k <= len(logs[i]); k++ {
				committedAt = append(committedAt, committed{logs[i][k-1], ti, i})
			}
		}
		for j := 1; j <= n; j++ {
			if r.G("state", j).AsString() != "leader" {
				continue
			}
			tj := r.G("currentTerm", j).AsNumber()
			for k, c := range committedAt {
				if tj >= c.term && (k+1 > len(logs[j]) || !logs[j][k].Equal(c.entry)) {
					dump := ""
					for x := 1; x <= n; x++ {
						dump += fmt.Sprintf(" [server %d: %s term %d commitIndex %d log terms", x, r.G("state", x).AsString(), r.G("currentTerm", x).AsNumber(), r.G("commitIndex", x).AsNumber())
						for _, e := range logs[x] {
							dump += fmt.Sprintf(" %d", term(e))
						}
						dump += "]"
					}
					out.fail("LeaderCompleteness", "after %s of %s: entry %d (%v) was committed in term %d (first seen at server %d) and is not in the log of leader %d of term %d;%s", label, a.Name, k+1, c.entry, c.term, c.by, j, tj, dump)
				}
			}
		}
		for i := 1; i <= n; i++ {
			si, ti, ci := r.G("state", i).AsString(), r.G("currentTerm", i).AsNumber(), r.G("commitIndex", i).AsNumber()
			for j := 1; j <= n; j++ {
				sj, tj, cj := r.G("state", j).AsString(), r.G("currentTerm", j).AsNumber(), r.G("commitIndex", j).AsNumber()
				// ElectionSafety
				if i < j && ti == tj && si == "leader" && sj == "leader" {
					out.fail("ElectionSafety", "after %s of %s: servers %d and %d are both leader of term %d", label, a.Name, i, j, ti)
				}
				// LogMatching
				if i < j {
					m := len(logs[i])
					if len(logs[j]) < m {
						m = len(logs[j])
					}
					for k := m; k >= 1; k-- {
						if term(logs[i][k-1]) == term(logs[j][k-1]) {
							for x := 0; x < k; x++ {
								if !logs[i][x].Equal(logs[j][x]) {
									out.fail("LogMatching", "after %s of %s: logs of %d and %d agree on the term at index %d but differ at index %d: %v vs %v", label, a.Name, i, j, k, x+1, logs[i][x], logs[j][x])
								}
							}
							break
						}
					}
				}
				// StateMachineSafety
				if i < j {
					m := ci
					if cj < m {
						m = cj
					}
					for k := 1; k <= int(m); k++ {
						if k > len(logs[i]) || k > len(logs[j]) || !logs[i][k-1].Equal(logs[j][k-1]) {
							out.fail("StateMachineSafety", "after %s of %s: servers %d and %d have both committed index %d but hold different entries there", label, a.Name, i, j, k)
						}
					}
					// ApplyLogOK
					if ci == cj {
						if !r.G("sm", i).Equal(r.G("sm", j)) || !r.G("smDomain", i).Equal(r.G("smDomain", j)) {
							out.fail("ApplyLogOK", "after %s of %s: servers %d and %d have commitIndex %d but different stores: %v vs %v", label, a.Name, i, j, ci, r.G("sm", i), r.G("sm", j))
						}
					}
				}
			}
			// LeaderAppendOnly (action property)
			if prevState[i] == "leader" && si == "leader" {
				pl := prevLog[i].AsTuple()
				if pl.Len() > len(logs[i]) {
					out.fail("LeaderAppendOnly", "after %s of %s: leader %d shortened its log from %d to %d entries", label, a.Name, i, pl.Len(), len(logs[i]))
				} else {
					for x := 0; x < pl.Len(); x++ {
						if !pl.Get(x).Equal(logs[i][x]) {
							out.fail("LeaderAppendOnly", "after %s of %s: leader %d changed entry %d of its log", label, a.Name, i, x+1)
						}
					}
				}
			}
			if ti < prevTerm[i] {
				out.fail("TermDecreased", "after %s of %s: currentTerm of server %d went from %d to %d", label, a.Name, i, prevTerm[i], ti)
			}
			if ci < prevCommit[i] {
				out.fail("CommitIndexDecreased", "after %s of %s: commitIndex of server %d went from %d to %d", label, a.Name, i, prevCommit[i], ci)
			}
			if si == "leader" && prevState[i] != "leader" {
				elections++
			}
			if si == "leader" && !seenFig8 {
				// reach probe: an entry of an older term stored on a majority under a leader that
				// has nothing of its own term yet (the situation of figure 8 in the Raft paper:
				// counting replicas would commit it)
				own := false
				for _, e := range logs[i] {
					if term(e) == ti {
						own = true
					}
				}
				for k := int(ci) + 1; !own && k <= len(logs[i]); k++ {
					cnt := 0
					for j := 1; j <= n; j++ {
						if len(logs[j]) >= k && logs[j][k-1].Equal(logs[i][k-1]) {
							cnt++
						}
					}
					if cnt*2 > n && term(logs[i][k-1]) < ti {
						seenFig8 = true
						out.Probes["old_term_entry_on_majority_under_new_leader"]++
						break
					}
				}
			}
			if len(logs[i]) < r.G("log", i).AsTuple().Len() {
				panic("unreachable")
			}
			if prevState[i] != "follower" && si == "follower" && len(logs[i]) > int(ci) {
				out.Probes["leader_or_candidate_stepped_down_with_uncommitted_entries"]++
			}
			if len(logs[i]) < prevLog[i].AsTuple().Len() {
				out.Probes["log_truncated"]++
			}
			prevLog[i], prevState[i], prevTerm[i], prevCommit[i] = r.G("log", i), si, ti, ci
		}
	}

	wd.AfterStep = func(a *env.Actor, label string, committed bool) {
		r.Arr.Settle(committed)
		if !committed {
			return
		}
		if opt.RecordTrace {
			out.Trace.States = append(out.Trace.States, r.State())
			out.Trace.Steps = append(out.Trace.Steps, a.Name+" "+label)
		}
		invariants(label, a)
		// client history
		for k, ca := range r.Clients {
			if ca != a {
				continue
			}
			cl := k + 1
			switch label {
			case "AClient.clientLoop":
				req, _ := a.Local("AClient.req")
				op := &Op{Client: cl, Call: int64(w.Seq()), Key: req.ApplyFunction(S("key")).AsString()}
				if req.ApplyFunction(S("type")).AsString() == "put" {
					op.Put = true
					op.Value = req.ApplyFunction(S("value")).AsString()
				}
				issued[cl]++
				pending[cl] = op
				if final && len(finalQ[cl]) > 0 {
					finalQ[cl] = finalQ[cl][1:]
					out.Probes["final_read_issued"]++
				}
			case "AClient.sndReq":
				if pending[cl] != nil && pcOf(a) == "rcvResp" {
					pending[cl].Sends++
				}
			case "AClient.rcvResp":
				if pcOf(a) == "clientLoop" && pending[cl] != nil {
					op := pending[cl]
					resp := wd.Vars["respCh"]
					mr := resp.ApplyFunction(S("mresponse"))
					op.Return = int64(w.Seq())
					if !op.Put {
						op.OK = mr.ApplyFunction(S("ok")).AsBool()
						if op.OK {
							op.Value = mr.ApplyFunction(S("value")).AsString()
						}
					}
					if mr.ApplyFunction(S("key")).AsString() != op.Key {
						out.fail("response_for_other_request", "client %d asked about key %s and was answered about key %v", cl, op.Key, mr.ApplyFunction(S("key")))
					}
					out.History = append(out.History, *op)
					if op.Put {
						ackedPutKey, electionsAtAck = op.Key, elections
						opsSinceAck = 0
					} else if ackedPutKey != "" {
						opsSinceAck++
					}
					pending[cl] = nil
				}
			}
		}
	}
	wd.Start()
	if opt.RecordTrace {
		out.Trace.States = append(out.Trace.States, r.State())
		out.Trace.Steps = append(out.Trace.Steps, "initial")
	}
	max := opt.MaxSteps
	if max == 0 {
		max = 400 + 250*n*c
	}
	crashed := map[int]bool{}
	finalOld := 0 // leader being deposed before the final reads (0 = none, or done)
	// calm timers: with a leader among the live servers election timers hardly fire; without
	// one the lowest live server's does (a leaderless cluster needs a time-out to recover)
	calmTimeout := func(sv int) float64 {
		leader, lowest := false, 0
		for i := n; i >= 1; i-- {
			if crashed[i-1] || i == finalOld {
				continue
			}
			if r.G("state", i).AsString() == "leader" {
				leader = true
			}
			lowest = i
		}
		if leader {
			return 0.999
		}
		if sv == lowest {
			return 0.5
		}
		return 0.999
	}
	weight := make([]int, n+1)
	phaseLen := []int{50, 150, 400, 100000}[w.Choose(sim.KCfg, 4)]
	slowRepl := w.Choose(sim.KCfg, 3) == 1
	patient := w.Choose(sim.KCfg, 3) == 0
	// leader flapping (a third of the runs with >= 3 servers): in every phase one server is the
	// favoured candidate (its election timer fires readily, the others' hardly ever) and,
	// usually, the previous favourite is cut off (its messages are delayed in both
	// directions, its timers keep running): the pattern behind stale leaders, competing
	// terms and figure 8 of the Raft paper
	flap := n >= 3 && w.Choose(sim.KCfg, 3) == 2
	fav, iso := 0, 0
	if flap {
		out.Probes["flap_mode"]++
		phaseLen = []int{60, 120, 250}[w.Choose(sim.KCfg, 3)]
		r.TimeoutP0 = func(sv int) float64 {
			if sv == fav {
				return 0.5
			}
			return 0.985
		}
	}
	// stale-leader hunt (half of the non-flapping 3-server runs): a state-aware adversary of
	// the kind a partitioning network is. It waits for a leader L holding an entry nobody
	// else has, cuts L off and favours another server B; once B leads a later term and holds
	// an entry of its own that nobody else has, it cuts B off and lets L back in; once L
	// leads again and its old entry is on a majority, it cuts L off and lets B run for
	// election. Every choice (who, when timers fire, what is delivered) is still drawn from
	// the stream; only the weights depend on the observed state.
	hunt := !flap && ((n == 3 && w.Choose(sim.KCfg, 2) == 1) || (n > 3 && w.Choose(sim.KCfg, 4) == 1))
	hs, hL, hB, hK, hSince := 0, 0, 0, 0, 0
	suppressAE := 0
	if hunt {
		max += 7000
		out.Probes["hunt_mode"]++
		r.TimeoutP0 = func(sv int) float64 {
			if fav == 0 {
				return r.CoinP0
			}
			if sv == fav {
				return 0.5
			}
			return 0.998
		}
	}
	huntStep := func() {
		logAt := func(i, k int) (tla.Value, bool) {
			l := r.G("log", i).AsTuple()
			if k < 1 || k > l.Len() {
				return tla.Value{}, false
			}
			return l.Get(k - 1), true
		}
		onlyOn := func(i, k int) bool {
			e, ok := logAt(i, k)
			if !ok {
				return false
			}
			for j := 1; j <= n; j++ {
				if j != i {
					if e2, ok2 := logAt(j, k); ok2 && e2.Equal(e) {
						return false
					}
				}
			}
			return true
		}
		st := func(i int) string { return r.G("state", i).AsString() }
		tm := func(i int) int32 { return r.G("currentTerm", i).AsNumber() }
		switch hs {
		case 0:
			for i := 1; i <= n; i++ {
				k := r.G("log", i).AsTuple().Len()
				if st(i) == "leader" && k > int(r.G("commitIndex", i).AsNumber()) && onlyOn(i, k) {
					hL, hK = i, k
					hB = 1 + (i+w.Choose(sim.KFault, 2))%n
					r.Isolated = map[int]bool{hL: true}
					fav, suppressAE = hB, hB
					hs, hSince = 1, out.Steps
					out.Probes["hunt_stale_leader_cut_off"]++
					return
				}
			}
		case 1:
			e, ok := logAt(hB, hK)
			if st(hB) == "leader" && ok && e.ApplyFunction(S("term")).AsNumber() == tm(hB) && onlyOn(hB, hK) {
				r.Isolated = map[int]bool{hB: true}
				fav, suppressAE = hL, 0
				hs, hSince = 2, out.Steps
				out.Probes["hunt_second_leader_cut_off"]++
			}
		case 2:
			e, ok := logAt(hL, hK)
			if st(hL) == "leader" && ok && tm(hL) > e.ApplyFunction(S("term")).AsNumber() {
				cnt := 0
				for j := 1; j <= n; j++ {
					if e2, ok2 := logAt(j, hK); ok2 && e2.Equal(e) {
						cnt++
					}
				}
				if cnt*2 > n {
					if hSince >= 0 {
						hSince = -out.Steps - 1 // remember when the entry reached a majority
						out.Probes["hunt_old_entry_on_majority"]++
					}
					// give the leader time to (wrongly) advance its commit index, then cut it off
					if out.Steps+hSince+1 > 80 || int(r.G("commitIndex", hL).AsNumber()) >= hK {
						r.Isolated = map[int]bool{hL: true}
						fav = hB
						hs, hSince = 3, out.Steps
						out.Probes["hunt_final_election"]++
					}
				}
			}
		}
		if hs > 0 && hs < 3 && hSince >= 0 && out.Steps-hSince > 3000 {
			// the situation did not develop: let the run go on undisturbed
			hs, fav, suppressAE = -1, 0, 0
			r.Isolated = nil
		}
	}
	// depose (patient mode, a third of the runs without flapping or hunting, 3+ servers): some
	// time after a Put has been acknowledged the current leader is cut off and another
	// server favoured, clients wait; once a new leader exists the network heals and the next
	// request is usually a Get of that key (NextReq): acknowledged writes must survive
	deposing, ackStep, deposed := false, -1, 0
	calm := !flap && !hunt && w.Choose(sim.KCfg, 4) == 1
	if calm && w.Choose(sim.KCfg, 3) != 0 {
		patient = true // two thirds of the calm runs depose leaders after acknowledged Puts
	}
	if patient && (flap || hunt || n < 3) {
		patient = false
	}
	// how long after the acknowledgement the leader is cut off: at once (followers have not
	// heard of the commit yet), a little later, or when they usually have
	deposeWait := []int{3, 40, 300}[w.Choose(sim.KCfg, 3)]
	// ... and after how many further (read) operations: followers learn commit indices past the
	// Put only from later traffic
	deposeAfterOps = []int{0, 1, 3}[w.Choose(sim.KCfg, 3)]
	patientReads = patient
	if patient {
		max += 1500
		out.Probes["depose_mode"]++
	}
	// calm mode (a quarter of the runs without flapping or hunting): timers behave as in a healthy
	// deployment (election and client time-outs are rare unless there is no leader), so that
	// requests complete in a few dozen steps, histories hold many acknowledged operations and
	// hardly any request is re-sent; leader changes come from the depose adversary, crashes
	// and the final phase instead of from constant time-out noise
	var baseTimeoutP0 func(int) float64
	if calm {
		baseTimeoutP0 = calmTimeout
		r.TimeoutP0 = calmTimeout
		r.CoinP0 = 0.99
		max *= 2
		out.Probes["calm_mode"]++
	}
	startFinalReads := func() {
		finalOld = 0
		r.Isolated = nil
		for i, key := range keys {
			cl := reader
			_ = i
			finalQ[cl] = append(finalQ[cl], tla.MakeRecord([]tla.RecordField{{Key: S("type"), Value: S("get")}, {Key: S("key"), Value: S(key)}}))
		}
		finalReading = true
	}
	enterFinal := func() {
		final = true
		hunt, patient, flap, deposing = false, false, false, false
		hs, fav, iso, suppressAE = -1, 0, 0, 0
		// faults stop: nobody is cut off any more and timers fire rarely (spurious election and
		// client time-outs are the remaining "fault"; a leaderless cluster still needs one)
		r.Isolated = nil
		r.CoinP0 = 0.97
		r.TimeoutP0 = calmTimeout
		phaseLen = 1 << 30
		for i := range weight {
			weight[i] = 20
		}
		max = out.Steps + 3000 + 500*n
		out.Probes["final_read_phase"]++
		// in half of the runs with 3+ servers the final reads are served by ANOTHER leader: the
		// present one is cut off until somebody else leads a later term, then everybody is
		// reachable again (what a replica missed applying, or a leader wrongly committed,
		// becomes visible to clients)
		finalOld = 0
		if n >= 3 && w.Choose(sim.KFault, 2) == 1 {
			max += 3000
			return // the loop below waits for a leader, cuts it off, waits for its successor
		}
		startFinalReads()
	}
	finalDone := func() bool {
		return finalReading && len(finalQ[reader]) == 0 && pending[reader] == nil
	}
	for out.Steps = 0; ; out.Steps++ {
		if out.Steps >= max {
			if final || opt.NoFinalReads {
				break
			}
			enterFinal()
		}
		if hunt && hs >= 0 && hs < 3 {
			huntStep()
		}
		if patient {
			switch {
			case !deposing && ackedPutKey != "" && elections == electionsAtAck && deposed < 2 && opsSinceAck >= deposeAfterOps:
				if ackStep < 0 {
					ackStep = out.Steps
				}
				if out.Steps-ackStep > deposeWait {
					leader := 0
					for i := 1; i <= n; i++ {
						if r.G("state", i).AsString() == "leader" {
							leader = i
						}
					}
					if leader != 0 {
						deposing = true
						deposed++
						fav = 1 + (leader+w.Choose(sim.KFault, n-1))%n
						r.Isolated = map[int]bool{leader: true}
						r.TimeoutP0 = func(sv int) float64 {
							if sv == fav {
								return 0.5
							}
							return 0.998
						}
						ackStep = out.Steps
						out.Probes["leader_deposed_after_acked_put"]++
					}
				}
			case deposing && (elections > electionsAtAck || out.Steps-ackStep > 2500):
				deposing, ackStep = false, -1
				r.Isolated, r.TimeoutP0 = nil, baseTimeoutP0
			case ackedPutKey == "":
				ackStep = -1
			}
		}
		en := wd.Enabled()
		if len(en) == 0 {
			break
		}
		// crashers are rare events: scheduled with low probability
		var cand []*env.Actor
		for _, a := range en {
			isCrasher := false
			for _, cr := range r.Crashers {
				if cr == a {
					isCrasher = true
				}
			}
			if isCrasher && w.ChooseP(sim.KFault, 20, 0.95) == 0 {
				continue
			}
			cand = append(cand, a)
		}
		if len(cand) == 0 {
			cand = en
		}
		// swarm: per-server speed classes, redrawn every phase, so that some servers (all
		// five archetypes of a server share the class) lag for long stretches the way
		// partitioned or slow nodes do
		if out.Steps%phaseLen == 0 {
			for i := range weight {
				weight[i] = []int{20, 20, 20, 3, 1}[w.Choose(sim.KFault, 5)]
			}
			if flap {
				prev := fav
				fav = 1 + w.Choose(sim.KFault, n)
				if fav == prev {
					fav = 1 + fav%n
				}
				iso = 0
				switch k := w.Choose(sim.KFault, 10); {
				case k < 6:
					iso = prev
				case k < 8:
					iso = 1 + w.Choose(sim.KFault, n)
					if iso == fav {
						iso = 0
					}
				}
				r.Isolated = map[int]bool{}
				if iso != 0 {
					r.Isolated[iso] = true
					out.Probes["server_isolated"]++
				}
				for i := range weight {
					weight[i] = 20
				}
			}
		}
		total := 0
		ws := make([]int, len(cand))
		for i, a := range cand {
			ws[i] = 20
			if sv := serverOf(r, a); sv > 0 {
				ws[i] = weight[sv]
				if slowRepl && a == r.Servers[sv-1][2] && ws[i] > 2 {
					ws[i] = 2 // AppendEntries senders run rarely: logs diverge, elections overtake replication
				}
				if suppressAE == sv && a == r.Servers[sv-1][2] {
					ws[i] = 0 // the hunted second leader does not get to replicate its entry
				}
			} else if final && finalReading {
				ws[i] = 60 // the final reads are what is left to do
			} else if hunt && hs >= 2 {
				ws[i] = 0 // clients are slow while the old leader is back: no entry of its new term yet
			} else if patient && (deposing || (ackedPutKey != "" && elections == electionsAtAck && deposed < 2 && opsSinceAck >= deposeAfterOps)) {
				ws[i] = 0 // patient clients: after an acknowledged Put they wait for the leader change before asking again
			}
			total += ws[i]
		}
		if total == 0 {
			for i := range ws {
				ws[i] = 1
			}
			total = len(ws)
		}
		pick := w.Choose(sim.KSched, total)
		a := cand[len(cand)-1]
		for i := range cand {
			if pick < ws[i] {
				a = cand[i]
				break
			}
			pick -= ws[i]
		}
		wd.Step(a)
		for k, cr := range r.Crashers {
			if cr == a && !crashed[k] {
				crashed[k] = true
				out.Probes["server_crashed"]++
			}
		}
		if a.Done() && (a.Err != nil || a.Panic != nil) {
			out.FailedActor = a
			out.fail("archetype_failed", "%s ended at %s with error %v / panic %v (an assertion of the spec failed in the generated code)", a.Name, a.PC, a.Err, a.Panic)
			break
		}
		if len(out.Failures) > 0 {
			break
		}
		// stop early once every client has got all its answers
		done := true
		for k := 1; k <= c; k++ {
			if issued[k] < nOps || pending[k] != nil {
				done = false
			}
		}
		if final && !finalReading {
			if finalOld == 0 {
				for i := 1; i <= n; i++ {
					if !crashed[i-1] && r.G("state", i).AsString() == "leader" {
						finalOld = i
					}
				}
				if finalOld != 0 {
					r.Isolated = map[int]bool{finalOld: true}
					out.Probes["final_leader_deposed"]++
				}
				continue
			}
			// deposing: another live server leads a later term than the old leader's
			for i := 1; i <= n; i++ {
				if i != finalOld && !crashed[i-1] && r.G("state", i).AsString() == "leader" && r.G("currentTerm", i).AsNumber() > r.G("currentTerm", finalOld).AsNumber() {
					out.Probes["final_reads_from_new_leader"]++
					max = out.Steps + 3000 + 500*n
					startFinalReads()
					break
				}
			}
			continue
		}
		if final {
			if finalDone() {
				out.Probes["final_reads_answered"]++
				break
			}
			continue
		}
		if (done && !(hunt && hs >= 1)) || (hunt && hs == 3 && out.Steps-hSince > 600) {
			if opt.NoFinalReads {
				break
			}
			enterFinal()
		}
	}
	for _, op := range pending {
		if op != nil {
			out.History = append(out.History, *op) // never answered
		}
	}
	if elections >= 2 {
		out.Probes["two_or_more_elections"]++
	}
	if len(out.History) > 0 {
		out.Probes["client_ops_recorded"]++
	}
	wd.StopAll()
	return out
}

func pcOf(a *env.Actor) string {
	pc := a.PC
	for i := 0; i < len(pc); i++ {
		if pc[i] == '.' {
			return pc[i+1:]
		}
	}
	return pc
}

// serverOf returns the server (1..N) an actor belongs to, 0 for clients and crashers.
func serverOf(r *envsys.Raft, a *env.Actor) int {
	for i, row := range r.Servers {
		for _, x := range row {
			if x == a {
				return i + 1
			}
		}
	}
	return 0
}
