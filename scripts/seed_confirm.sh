#!/bin/bash
# Confirms a seeded change in a scratch worktree of /repo HEAD and files it under /verif/seeded/<id>/.
# usage: seed_confirm.sh <id> <property> <srcdir(with patch.diff,demo,README)> <demo-file> <demo-dest-rel-path> <demo-dir-rel> <demo-run-regex> <needs...> -- <module dirs for the existing tests...>
set -u
id=$1; prop=$2; src=$3; demo=$4; dest=$5; ddir=$6; rx=$7; shift 7
mods=(); for a in "$@"; do [ "$a" = "--" ] || mods+=("$a"); done
wt=/tmp/wt-confirm-$id
git -C /repo worktree remove --force $wt 2>/dev/null
git -C /repo worktree add -q $wt HEAD || exit 2
export GOPROXY=off
ns() { ( cd "$1" && shift && unshare -n sh -c 'ip link set lo up; exec "$@"' sh "$@" ); }
out=/verif/seeded/$id; mkdir -p $out
cp $src/patch.diff $out/patch.diff
cp $src/$demo $out/$(basename $demo)
cp $src/README.md $out/README.agent.md 2>/dev/null
res_apply=fail; res_demo_with=unknown; res_demo_without=unknown; res_tests=unknown
if git -C $wt apply --check $out/patch.diff 2>/dev/null; then res_apply=ok; else echo "PATCH DOES NOT APPLY on current HEAD"; fi
if [ $res_apply = ok ]; then
  mkdir -p $(dirname $wt/$dest)
  cp $src/$demo $wt/$dest
  # without patch
  if ns $wt/$ddir env ${DEMO_ENV:-X=1} go test -vet=off -count=1 -run "$rx" ./... > $out/demo_without.log 2>&1; then res_demo_without=pass; else res_demo_without=fail; fi
  git -C $wt apply $out/patch.diff
  if ns $wt/$ddir env ${DEMO_ENV:-X=1} go test -vet=off -count=1 -run "$rx" ./... > $out/demo_with.log 2>&1; then res_demo_with=pass; else res_demo_with=fail; fi
  rm -f $wt/$dest
  res_tests=pass
  : > $out/existing_tests.log
  for m in "${mods[@]}"; do
    if ! ns $wt/$m go test -vet=off -count=1 ./... >> $out/existing_tests.log 2>&1; then res_tests=fail; fi
  done
fi
echo "id=$id apply=$res_apply demo_without_patch=$res_demo_without demo_with_patch=$res_demo_with existing_tests_with_patch=$res_tests"
cat > $out/confirm.json <<J
{"id":"$id","property":"$prop","patch_applies_on_head":"$res_apply","demo_without_patch":"$res_demo_without","demo_with_patch":"$res_demo_with","existing_tests_with_patch":"$res_tests","modules_tested":"${mods[*]}","head":"$(git -C /repo rev-parse --short HEAD)"}
J
git -C /repo worktree remove --force $wt
