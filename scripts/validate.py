#!/usr/bin/env python3-vt
import json,jsonschema,glob,sys
m=json.load(open('/verif/MANIFEST.json')); s=json.load(open('/root/.vp/MANIFEST.schema.json'))
jsonschema.validate(m,s); print('manifest ok')
es=json.load(open('/root/.vp/EVIDENCE.schema.json'))
for f in sorted(glob.glob('/verif/evidence/*.json')):
    jsonschema.validate(json.load(open(f)),es); print('evidence ok', f)
