#!/bin/bash
# usage: sweep.sh <tier> <seed> <workers> <id>...   (meant for `vp run`: builds vcheck inside the snapshot, evidence stays in the snapshot)
tier=$1; seed=$2; workers=$3; shift 3
export GOFLAGS=-mod=mod GOPROXY=off GOSUMDB=off GOTOOLCHAIN=local CGO_ENABLED=0
root=$PWD
(cd h && go1.26.8 build -o $root/bin/vcheck ./cmd/vcheck) || exit 2
for id in "$@"; do
  t0=$(date +%s)
  o=$(VERIF_ROOT=$root VERIF_SEED=$seed ./bin/vcheck run $id --tier $tier --workers $workers 2>&1); rc=$?
  t1=$(date +%s)
  echo "== $id tier=$tier seed=$seed exit=$rc wall=$((t1-t0))s"
  echo "$o" | grep -v '^KNOWN-FINDING' | tail -6 | cut -c1-600
  echo "known_lines=$(echo "$o" | grep -c '^KNOWN-FINDING')"
done
