#!/usr/bin/env python3
"""Writes /verif/seeded/<id>/meta.json from confirm.json, detect.jsonl and the agent's
README, and prints the markdown table for DESIGN.md section 13.6."""
import json, os, re, sys, glob

root = '/verif/seeded'
rows = []
for d in sorted(os.listdir(root)):
    p = os.path.join(root, d)
    if not os.path.isdir(p) or not os.path.exists(os.path.join(p, 'patch.diff')):
        continue
    confirm = {}
    if os.path.exists(os.path.join(p, 'confirm.json')):
        confirm = json.load(open(os.path.join(p, 'confirm.json')))
    title = ''
    readme = os.path.join(p, 'README.agent.md')
    if os.path.exists(readme):
        for l in open(readme):
            if l.startswith('#'):
                title = re.sub(r'^#+\s*', '', l).strip()
                title = re.sub(r'^(C\d\d\s*)?[Mm]utation\s*\d+\s*[—:\-–]*\s*', '', title)
                break
    files = sorted(set(re.findall(r'^diff --git a/(\S+)', open(os.path.join(p, 'patch.diff')).read(), re.M)))
    detect = []
    dp = os.path.join(p, 'detect.jsonl')
    if os.path.exists(dp):
        for l in open(dp):
            l = l.strip()
            if l:
                try:
                    detect.append(json.loads(l))
                except Exception:
                    pass
    extra = os.path.join(p, 'detect_extra.jsonl')
    if os.path.exists(extra):
        for l in open(extra):
            l = l.strip()
            if l:
                detect.append(json.loads(l))
    # a later run of the same check and tier (after the check was extended) supersedes an earlier one
    last = {}
    for x in detect:
        last[(x['check'], x.get('tier', 'quick'))] = x
    history = detect
    detect = list(last.values())
    caught = [x for x in detect if x.get('exit') == 1]
    missed = [x for x in detect if x.get('exit') == 0]
    meta = {
        'id': d, 'property': confirm.get('property', d[:3].upper()), 'title': title, 'files_changed': files,
        'compiles_and_existing_tests_pass_with_patch': confirm.get('existing_tests_with_patch') == 'pass',
        'demo_fails_with_patch': confirm.get('demo_with_patch') == 'fail',
        'demo_passes_without_patch': confirm.get('demo_without_patch') == 'pass',
        'confirmed_on_head': confirm.get('head', ''),
        'origin': 'fresh sub-agent given only the property text and a scratch worktree; confirmed in a scratch worktree by seed_confirm.sh',
        'detected_by': [{'check': x['check'], 'tier': x.get('tier', 'quick'), 'rules': [r for r in x.get('rules', '').split(',') if r], 'runs': x.get('runs', ''), 'wall_s': x.get('wall_s')} for x in caught],
        'not_detected_by': [{'check': x['check'], 'tier': x.get('tier', 'quick'), 'runs': x.get('runs', ''), 'wall_s': x.get('wall_s')} for x in missed],
        'all_trials': history,
        'apply': 'git -C /repo apply /verif/seeded/%s/patch.diff' % d, 'undo': 'git -C /repo checkout -- .',
    }
    json.dump(meta, open(os.path.join(p, 'meta.json'), 'w'), indent=1)
    c = '; '.join('%s (%s)' % (x['check'], ', '.join(x['rules'][:3]) or 'violation') for x in meta['detected_by']) or '—'
    m = ', '.join('%s/%s' % (x['check'], x['tier']) for x in meta['not_detected_by']) or '—'
    rows.append('| %s | %s | %s | %s | %s |' % (d, meta['property'], (title[:90] + ('…' if len(title) > 90 else '')).replace('|', '/'), c, m))

print('| id | property | change | caught by (rules) | not caught by |')
print('|---|---|---|---|---|')
print('\n'.join(rows))
