#!/usr/bin/env python3
"""Generates /verif/MANIFEST.json from the table below (kept in one place so the
manifest stays valid while checks are added)."""
import json, sys

ALL = ["C%02d" % i for i in range(1, 20)]
NA = {
 "C03": "Pure functions of their inputs: every TLA+ operator maps argument values to a value or a panic; there is no schedule, clock, I/O, fault or second party for a simulator to vary. Deterministic simulation with fault injection cannot decide it; feeding generated values to pure functions would be input generation in simulator vocabulary (DESIGN.md section 7).",
 "C05": "Laws of pure functions on values (equality, hash, String, gob round-trip are functions of the value, not of delivery or timing); nothing for a scheduler or fault injector to decide (DESIGN.md section 7).",
}
# property -> (claimed?, text, note, technique, design_ref)
CHECKS = {
 "C17": dict(
   text="Seeded search over lifecycle scenarios of the real MPCalContext (Run/Stop/cleanup) with the real IncMap and NewNested resources under a simulator-owned goroutine scheduler and fake clock: 0-5 concurrent Stop callers at drawn instants (before Run, mid-section, during slow cleanup, after return, repeated), every way a run can end, optional second Run; oracles: every Stop returns within a simulated-time bound (scheduler deadlock/hang verdict otherwise), no commit or section after a Stop returned, every resource and realised map element closed exactly once after a started run, Run's result classified distinctly, a second Run executes nothing. A clean batch is evidence over the sampled interleavings, not proof.",
   note="Trusted: the go/ast overlay instrumentation (rules R1-R5) preserves behaviour; testing/synctest fake clock; the harness's counting resources stand in for arbitrary leaf resources. Close durations <= 5 s, Stop delays <= 6 s.",
   technique="deterministic simulation: seeded goroutine scheduler + fake clock over overlay-instrumented real code, deadlock verdict, ddmin-shrunk replay files",
   ref="6 (C17)"),
 "C04": dict(
   text="Seeded generation of call graphs (1-4 procedures, value and ref parameters, initialised and uninitialised locals, recursion and mutual recursion bounded by a fuel argument, calls in tail position through TailCall) executed by the real ArchetypeInterface.Call/TailCall/Return/Goto inside MPCalContext.Run, with attempts that fail after doing all their work (abort between call and return); after every attempt pc, every saved stack frame and every variable of every procedure and of the caller are compared with a 150-line reference interpreter of PlusCal call semantics.",
   note="Trusted: jump/proc tables hand-built in the code generator's conventions (the Scala compiler cannot run offline); values are integers and handle strings; depth <= 4.",
   technique="deterministic simulation (single task): seeded program and abort-pattern generation, lock-step reference model of PlusCal call semantics, shrunk replay files",
   ref="6 (C04)"),
 "C10": dict(
   text="The real round-robin fairness counter is driven through MPCalContext.Run by labels whose attempts consult generated choice points (depth 1-4, bounds 1-6) and fail until a target combination or for a full product-of-bounds window; between phases ids/bounds/depth change (prefix-stable or not) under retry or after commits to the same or another label; random start digits are stream decisions. Oracles: every value below its bound, no panic, every maximal run of attempts consulting the same choice points has no repeated combination and covers all combinations in a full window, the target is reached within product-of-bounds attempts.",
   note="Trusted: the harness body calls NextFairnessCounter the way generated either/with code does; single task.",
   technique="deterministic simulation (single task): seeded retry/structure-change schedules against a combinatorial oracle, shrunk replay files",
   ref="6 (C10)"),
 "C12": dict(
   text="Replica-level simulation of the real GCounter, AWORSet and LWWSet values: 2-5 replicas, seeded sequences of local updates and full-state messages through a transport that reorders, duplicates, delays and drops, every state through encoding/gob, LWW timestamps from the simulated clock; after every update and merge the replica's Read is compared with a reference model over the set of updates it knows (counter = sum, add-wins = adds not observed by a remove, LWW = latest operation per element); replicas with equal knowledge must read equally; commutativity, associativity, idempotence, inflation, merge = union and gob round-trip are judged observationally on reached states. AWORSet has a recorded known finding (information loss after a concurrent add and remove of one element); AWORSet histories without such concurrency, GCounter and LWWSet are judged in full.",
   note="Trusted: reference models in the harness; distinct LWW timestamps; equality of states judged by Read now and after identical continuations (sound, may miss differences no continuation in the sample exposes).",
   technique="deterministic simulation at replica level: seeded operation/delivery/duplication/loss sequences, reference-model and algebraic-law oracles over the recorded history, shrunk replay files",
   ref="6 (C12)"),
 "C01": dict(
   text="Seeded search over programs of critical sections (1-6 sections x 1-6 operations) bound to drawn mixes of 1-5 REAL resources (archetype local, cell, indexed cell, IncMap, HashMap, InputChan, OutputChan, LocalShared, Persistent on in-memory badger, FileSystem on a simulated disk, TCP mailboxes to/from peer archetypes over a simulated network, the CRDT resource with a peer replica that commits and aborts its own increments and judges every value it receives, the 2PC resource with two passive replicas over net/rpc) running in the real MPCalContext.Run under a simulator-owned scheduler and clock; attempts fail at drawn positions (false await after k operations; any resource refusing its n-th read/write/index/pre-commit; real read time-outs, refused dials, stalls). Every read is compared with a reference model (last committed state + the attempt's own writes; inputs consumed by a failed attempt are offered again in order); emitted outputs, messages delivered to the peer, files and database records are compared with the committed model at the end.",
   note="Trusted: overlay instrumentation R1-R5; reference models in verif/ulib; kinds not in this mix (relaxed mailboxes, nested archetype, raft log/channel resources) have their abort/commit atomicity exercised by C06/C16; contended 2PC and multi-writer CRDT scenarios are C11/C13. Known finding recorded: committed TCP-mailbox batches can be reordered across a sender reconnect.",
   technique="deterministic simulation: seeded programs, fault positions and schedules over overlay-instrumented real resources; per-read reference-model oracle; shrunk, fresh-process-verified replay files",
   ref="6 (C01)"),
 "C06": dict(
   text="Seeded search over 1-4 sender and 1-3 receiver archetypes on separate simulated nodes using the real TCP mailboxes or relaxed mailboxes (and NewMailboxesLength) over a simulated TCP-like network under a simulator-owned scheduler and clock: pre-emption everywhere, stalls, latency, bounded socket buffers, late listeners, tiny receive buffers, read/write/dial time-outs 2 ms-3 s, sections failing after sends or after receives; messages are unique per attempt. History oracles per (sender, receiver): obtained sequence = committed-sent sequence (no loss, duplication, reordering, invention), no message of a failed attempt, same-order redelivery after an aborted receive, TCP batch contiguity, reported length <= pending, bounded completion. Calm configurations (time-outs far above latency and stalls) are judged strictly; in harsh ones two recorded known findings (reorder and duplicate after a time-out-induced reconnect) are separated from every other violation by the per-sender connection count.",
   note="Trusted: overlay instrumentation R1-R6; simulated network is TCP-like (per-connection FIFO byte streams); no connection reset/isolation injected in this configuration; receivers keep mailboxes open until senders finish.",
   technique="deterministic simulation: seeded schedules, time-outs, latency and buffer pressure over overlay-instrumented real mailboxes; history oracles (FIFO/exactly-once/atomic batches); shrunk replay files",
   ref="6 (C06)"),
 "C07": dict(
   text="Seeded search over 2-5 archetype contexts sharing 1-4 variables through the real LocalSharedManager (lock time-outs 0-1 s): increment, transfer and unique-value read/write sections in drawn (opposite) orders, failing at drawn positions, pre-empted at every yield and stalled while holding locks. The recorded history of committed sections is checked for strict serializability against a multi-register transaction model with porcupine (outside the simulation), which subsumes lost updates, dirty/non-repeatable reads, effects of aborted sections and conservation; mutual exclusion between a section that has accessed a variable and every other context holds until that section's body returns, handles are wrapped in Persistent in a third of the runs, no operation on a shared variable outlives the lock time-out (net of simulator-injected lag), and all contexts must finish within a simulated-time bound (no deadlock, time-outs abort instead of blocking).",
   note="Trusted: overlay instrumentation; porcupine; histories <= 25 sections; porcupine time-outs counted as inconclusive.",
   technique="deterministic simulation: seeded goroutine schedules and stalls over the real lock manager; porcupine strict-serializability check of the recorded history; bounded-progress verdict; shrunk replay files",
   ref="6 (C07)"),
 "C13": dict(
   text="Seeded search over 2-4 nodes each owning the real NewCRDT resource (broadcaster ticker, merger, net/rpc receiver over a simulated network) with archetypes that write distinct power-of-two increments per attempt, hold sections open across broadcast ticks and incoming merges, commit, abort, or abandon the write after aborting; merge-queue capacity 100 or (a third of the runs) 1-2; in some four-node runs two replicas go silent for good and the other two must keep converging; schedules interleave ticks, ReceiveValue calls, merges, writes, commits and aborts. On every read: no update of an aborted attempt, no update of a section still in flight elsewhere, nothing previously read missing; after updates stop every node reads every committed update that was issued while it was reachable, and nothing uncommitted, within 20 broadcast intervals + 2 send time-outs + 1 s.",
   note="Trusted: overlay instrumentation; GCounter with power-of-two increments as the attributable CRDT value; no resets/partitions injected (property speaks of connected peers); delivery is only required to peers listening before the update's section started.",
   technique="deterministic simulation: seeded schedules over the overlay-instrumented CRDT resource and net/rpc on a simulated network; per-read attribution oracles and bounded-convergence verdict; shrunk replay files",
   ref="6 (C13)"),
 "C11": dict(
   text="Seeded search over 2-5 nodes each owning the real NewTwoPC resource, with archetypes running concurrent increment sections (some failing after the write), over three transports with the same workload: the in-process LocalReplicaHandle, a simulator message transport calling the peer's exported Receive with drawn delay, loss, duplication and reply loss, and the real RPCReplicaHandle (net/rpc + gob) on the simulated network; a minority may be cut off for a window. Invariants at every scheduling point: versions never decrease, one value per version across replicas, a replica that has processed a proposer's Abort does not hold that proposer's older pre-commit. At the end: every programmed increment committed within a simulated-time bound (progress), committed increments read 0..K-1 each once (single copy, no lost update), no replica still holds the pre-commit of a proposal that was given up. Three recorded known findings with one root cause (no retransmission of a lost Commit/Abort once the proposer has moved on: a stuck writer, a kept pre-commit, and two winners of one version after a replica that missed a Commit votes again) are attributed only when the transport actually dropped such a message.",
   note="Trusted: overlay instrumentation R1-R7 (R7: strictly increasing time.Now under the frozen fake clock); replica state read through an overlay-added accessor at scheduling points; cut-off windows <= 2 s because the uncapped exponential back-off otherwise exceeds any fixed progress bound.",
   technique="deterministic simulation: seeded schedules, message delay/loss/duplication and minority cut-off over the overlay-instrumented 2PC resource on three transports; invariant checks at every step and history oracles; shrunk replay files",
   ref="6 (C11)"),
 "C19": dict(
   text="Seeded search over every order of monitor start, archetype start, archetype end (normal, error, panic), restart of the same archetype id under the same monitor, monitor shutdown or isolation, and detector start, with drawn polling and time-out settings and an optional slow-network phase, using the real Monitor (ListenAndServe, RunArchetype, net/rpc) and SingleFailureDetector over a simulated network and clock. A probe reads every detector several times per interval: after the archetype has ended or its monitor has become unreachable every read past the settling time is TRUE (completeness, for ever within the horizon); while it runs on a reachable monitor with a calm network every read past the settling time is FALSE (accuracy after settling); no read takes longer than 1.5 polling intervals; no detector stays uninitialised; Close returns.",
   note="Trusted: overlay instrumentation; settling time 2 intervals + 2 time-outs + 5 ms; no task stalls injected; Monitor.Close is not treated as unreachability because established connections stay served.",
   technique="deterministic simulation: seeded event orders, schedules and network phases over the overlay-instrumented failure detector and net/rpc; time-indexed completeness/accuracy oracles on every probe read; shrunk replay files",
   ref="6 (C19)"),
 "C15": dict(
   text="The real generated AServer/AClient archetypes of systems/locksvc run on the real distsys core in the level-A spec world (the spec's global variables and its ReliableLink mapping macro implemented to the letter; the fairness-counter seam is the gate, so one critical section = one atomic step and every either/with is a stream decision), for 1-8 clients, every interleaving of client and server labels and every delivery order of the bag network (or per-mailbox arrival order) drawn from the stream. After every committed step: at most one hasLock, one client between critical section and unlock, grants only to the head of the server's queue, only to a client with an outstanding request, in the order lock requests reached the server; no spec assertion fails; every client finishes.",
   note="Trusted: level-A environment stubs (verif/env, verif/envsys) implement the macros faithfully (cross-checked by C02 against TLC); atomicity of sections is by construction at this level (C01 covers the runtime).",
   technique="deterministic simulation at spec-step granularity: seeded label interleavings and message choices over the real generated archetypes; invariant oracles after every step; shrunk replay files",
   ref="6 (C15)"),
 "C02": dict(
   text="For each wired spec/Go pair (see DESIGN.md for the list actually wired; currently locksvc, raftkvs, pbkvs, dqueue, loadbalancer, proxy, shcounter, gcounter and shopcart; processes of a spec that are not archetypes (the CRDT merge processes of gcounter and shopcart) are transcribed by the harness and their steps are validated by TLC like any other) the real generated archetypes run in the level-A spec world under seeded schedules and choices; after every committed step the full spec state under the PlusCal translation's variable names (pc, every archetype local, every global) is recorded, and TLC evaluates the specification's own Init on the first state and Next (or stuttering) on every consecutive pair, reading the .tla from /repo at check time. A committed Go step that is not a step of the spec, or an initial state that is not Init, is a violation; Go assertion failures and panics are violations too.",
   note="Trusted: TLC as evaluator of the spec's Next; the independent TLA+ value printer; hand-written binding tables from spec variables to Go state (a missing binding stops the check with exit 2). Only wired pairs are claimed; steps the spec enables but Go refuses are not detected by this oracle.",
   technique="deterministic simulation + refinement check of the recorded history: seeded spec-level schedules over the real generated code, TLC evaluating the spec's next-state relation on every recorded state pair",
   ref="6 (C02)"),
 "C08": dict(
   text="All archetypes of the generated Raft KV store (five per server, clients, the spec's crashers) run on the real runtime in the level-A spec world for 1-5 servers and 1-3 clients: per-link FIFO delivery with any interleaving of links, bounded buffers, every election/client time-out and failure-detector answer a biased stream coin, crash-stop of a minority at label boundaries, per-server speed classes redrawn in phases. After every committed step the spec's ElectionSafety, LogMatching, LeaderCompleteness, StateMachineSafety, ApplyLogOK and LeaderAppendOnly (transcribed to Go) are evaluated, plus monotone terms/commit indices and no failed assertion.",
   note="Trusted: invariants transcribed from raftkvs.tla; level-A environment (macros to the letter); level B (bootstrap over simulated TCP) not included yet.",
   technique="deterministic simulation at spec-step granularity: seeded interleavings, time-outs, failure-detector answers and crashes over the real generated Raft archetypes; invariant oracles after every step; shrunk replay files",
   ref="6 (C08)"),
 "C09": dict(
   text="Level A (three runs in four): same Raft execution as C08 with 1-3 concurrent clients issuing Puts with unique values and Gets; a quarter of the plain runs are calm (timers as in a healthy deployment, so that many operations are acknowledged), and every run ends with a final-read phase (faults stop, optionally the leader is first cut off until another server leads, then one Get per key), so that a lost acknowledged write becomes visible in the history. Level B (one run in four): the shipped bootstrap of systems/raftkvs (real relaxed mailboxes, monitors, failure detectors, election timer, CustomInChan, LocalShared variables, optionally PersistentLog on in-memory badger) under the simulator's scheduler, clock and network, clients through the real bootstrap.Client.Run with request time-outs, a server cut off for a window and/or a server stopped. In both, the history (invoke/return stamped with event sequence numbers, unanswered Puts pending for ever) is checked with porcupine against a key-value map, outside the simulation. One recorded known finding: a Put re-sent after a client time-out is appended and applied twice (no de-duplication in spec or Go); histories in which no Put was re-sent are judged strictly.",
   note="Trusted: porcupine; history stamps taken at the commit of the client's clientLoop/rcvResp labels (level A) or around bootstrap.Client.Run's request/response channels (level B); progress at level B is not judged; the recorded finding (a re-sent Put is appended to the log again) is attributed only to histories that become linearizable once the re-sent Puts may take effect twice.",
   technique="deterministic simulation + linearizability check (porcupine) of the recorded client history",
   ref="6 (C09)"),
 "C14": dict(
   text="The real generated AReplica/AClient archetypes of systems/pbkvs run in the level-A spec world (ReliableFIFOLink per <<id, typ>>, NetworkToggle, PerfectFD, LeaderElection on the alive set, NetworkBufferLength, FileSystem, request Channel) for 1-4 replicas and 1-3 clients with EXPLORE_FAIL: every mayFail branch is a stream decision (bounded so that one replica survives), so replicas crash at every label boundary the spec allows, including mid-replication. After every committed step ConsistencyOK as written in the spec (primary about to answer => every live replica holds the primary's store) and no failed assertion; the clients' history is checked for linearizability against a register with porcupine.",
   note="Trusted: level-A environment stubs (macros to the letter, cross-checked by C02 against TLC); perfect failure detector as the property states; KEY_SET = {KEY1} as in the spec. One recorded known finding (a Put re-sent after a primary crash is applied twice), attributed only to histories that become linearizable once re-sent Puts may take effect a second time.",
   technique="deterministic simulation at spec-step granularity: seeded interleavings and crash points over the real generated primary-backup archetypes; invariant oracle after every step + porcupine linearizability of the recorded history",
   ref="6 (C14)"),
 "C16": dict(
   text="One run = one drawn system with drawn sizes. Level A (real generated archetypes in the spec world): dqueue (exactly-once, in-order hand-over to the requester, buffer bounds, no deadlock), loadbalancer (BuffersOk, each request forwarded once and answered by exactly one server with the right page), proxy with a perfect failure detector and any sequence of backend crashes (ProxyOK after every step; a client is told FAIL only when every backend has failed), nestedcrdtimpl (generated ACRDTResource driven by the spec's Node processes: MonotonicState, no lost or phantom increment, reads never go below the section's starting count, convergence at quiescence). Level U (real generated archetypes with the real 2PC / CRDT resources over net/rpc on the simulated network under the simulator's scheduler and clock): shcounter (every replica ends at NUM_NODES, within a bound), gcounter (reads never decrease or exceed the increments written, final read NUM_NODES), shopcart with the LWWSet the shipped bootstrap uses (no phantom element, equal knowledge => equal carts, last writer decides). No assertion of any spec fails.",
   note="Trusted: level-A stubs; unique items/paths so that deliveries are attributable; proxy run with PerfectFD (the property's hypothesis) rather than the PracticalFD the shipped spec instantiates; the spec's StateSanity is not used as written (it sums a set of views and is falsified by the spec's own behaviours): per-key parity is checked instead; gcounter termination is not demanded (a finished node closes its CRDT resource). replicatedkv has neither spec nor test in the tree and is not exercised.",
   technique="deterministic simulation: seeded spec-step interleavings and crash points (level A) and seeded goroutine schedules over real 2PC/CRDT resources on a simulated network (level U); invariant and history oracles; shrunk replay files",
   ref="6 (C16)"),
 "C18": dict(
   text="Seeded search over 2-4 communicating archetypes on the real runtime with tracing and vector clocks enabled (PGO_TRACE_DIR), over real Go-channel resources, TCP mailboxes on the simulated network and LocalShared variables, each with scalar and function-valued locals; drawn programs with chained assignments, indexed writes, sends followed by receives in one section, attempts aborting at drawn positions, read and lock time-outs. The harness's own account of every attempt (operations performed through the interface; outcome from a spy resource's Commit/Abort) is compared with the trace taken from the in-memory recorder or parsed from the runtime's JSON log files: one event per attempt in program order with the right outcome, exactly the performed reads/writes with indices and values, previous-value hints of locals, replay of committed logged writes reproduces every logged read of local state, own clock component = event ordinal, clocks never go back, and every attempt that read a value sent/written by another attempt carries a clock dominating that attempt's logged clock. One recorded known finding: values carry the clock of the write statement, so what the writer learns later in the same attempt is missing at the reader (mailboxes, shared variables); channel links (OutputChan re-stamps at commit) are judged strictly, as is every clock component the writer already had when it wrote.",
   note="Trusted: overlay instrumentation R1-R7; harness-built jump tables call the interface as generated code does; calm network (no mailbox reconnects); links from lower to higher ids.",
   technique="deterministic simulation: seeded programs, abort positions and goroutine schedules over the overlay-instrumented runtime with tracing on; history oracle comparing the recorded trace (recorder and JSON files) with the harness's account, replay and vector-clock dominance checks; shrunk replay files",
   ref="6 (C18)"),
}
PENDING = "check not built yet in this session (planned, see DESIGN.md section 6); not claimed until its harness passes the determinism self-test"

def main():
    checks = []
    na = []
    for pid in ALL:
        if pid in CHECKS:
            c = CHECKS[pid]
            checks.append({
              "property_id": pid,
              "quick_cmd": "./bin/vcheck run %s --tier quick" % pid,
              "thorough_cmd": "./bin/vcheck run %s --tier thorough" % pid,
              "evidence_file": "/verif/evidence/%s.json" % pid,
              "replay_cmd_template": "./bin/vcheck replay {path}",
              "engine": "vcheck",
              "level_claimed": {"category": "exploration", "text": c["text"], "design_ref": c["ref"]},
              "level_note": c["note"],
              "technique": c["technique"],
            })
        elif pid in NA:
            na.append({"property_id": pid, "reason": NA[pid]})
        else:
            na.append({"property_id": pid, "reason": PENDING})
    m = {
      "version": 1,
      "setup_cmd": "cd /verif/h && GOFLAGS=-mod=mod GOPROXY=off GOSUMDB=off GOTOOLCHAIN=local CGO_ENABLED=0 go1.26.8 build -o /verif/bin/vcheck ./cmd/vcheck && /verif/bin/vcheck warm",
      "hooks": {
        "guard": "verif-overlay",
        "enable": "no source hook in /repo: each check instruments a scratch copy of the current /repo packages with go/ast (verif/instr) and builds its worker with `go1.26.8 test -c -overlay <scratch>/overlay.json`; without the overlay the shipped code is byte-identical",
        "baseline_off_cmd": ". /w/out/goenv.sh; for m in $(cat /w/out/gomods.txt); do MF=$(cd /repo/$m && gomodflag); (cd /repo/$m && go test $MF -json -vet=off -count=1 -timeout 25m ./...); done",
        "source_commits": [],
        "add_only": True,
      },
      "engines": [{
        "name": "vcheck", "path": "/verif/h/cmd/vcheck",
        "serves_properties": sorted(CHECKS.keys()),
        "kind_free_text": "deterministic simulation driver: overlay instrumentation of the current tree, seeded scheduler/clock/network (verif/sim), worker fan-out, ddmin shrinking, fresh-process replay verification, evidence writer",
      }],
      "checks": checks,
      "not_applicable": na,
      "notes": "Exit codes of every command: 0 held, 1 VIOLATION (replay verified in a fresh process), 2 machinery trouble (build/instrumentation/nondeterminism guard/watchdog). Genuine defects repaired in /repo are listed in /verif/known_findings.json as fixed.",
    }
    json.dump(m, open("/verif/MANIFEST.json", "w"), indent=1)
    print("claimed:", sorted(CHECKS.keys()))

main()
