#!/bin/bash
# usage: try_patch.sh <patch> <check id> [vcheck args...] : applies patch to /repo, runs the check, reverts.
p=$1; id=$2; shift 2
git -C /repo apply $p || { echo "patch does not apply"; exit 2; }
/verif/bin/vcheck run $id "$@" 2>&1 | tail -6 | cut -c1-700
rc=${PIPESTATUS[0]}
git -C /repo checkout -- . 
echo "exit=$rc"
