#!/bin/bash
# usage: try_patch.sh <patch> <check id> [vcheck args...]
# Runs a check against a scratch worktree of /repo HEAD with the patch applied (VERIF_REPO points the
# driver at it); /repo itself is never touched, so background runs against /repo are not disturbed.
# Evidence/replays go to a scratch VERIF_ROOT copy so that /verif/evidence keeps describing /repo itself.
p=$(readlink -f "$1"); id=$2; shift 2
wt=$(mktemp -d /tmp/wt-try-XXXXXX); rmdir $wt
git -C /repo worktree add -q --detach $wt HEAD || { echo "cannot create worktree"; exit 2; }
cleanup() { git -C /repo worktree remove --force $wt 2>/dev/null; rm -rf $wt $vr; }
vr=$(mktemp -d /tmp/vroot-XXXXXX)
trap cleanup EXIT
git -C $wt apply "$p" || { echo "patch does not apply"; exit 2; }
# scratch VERIF_ROOT: harness sources + known findings by symlink, evidence/replays local
ln -s /verif/h $vr/h; ln -s /verif/known_findings.json $vr/known_findings.json
VERIF_REPO=$wt VERIF_ROOT=$vr /verif/bin/vcheck run $id "$@" 2>&1 | tail -14 | cut -c1-700
rc=${PIPESTATUS[0]}
if [ -n "$KEEP_REPLAYS" ] && [ -d $vr/replays ]; then mkdir -p "$KEEP_REPLAYS"; cp -r $vr/replays/* "$KEEP_REPLAYS"/; fi
echo "exit=$rc"
exit $rc
