#!/bin/bash
# Runs the repository's own test suite (the BASELINE.json command) with no verif overlay
# and prints pass/fail counts. Usage: scripts/baseline.sh [outfile]
out=${1:-/tmp/baseline.$$.json}
. /w/out/goenv.sh
: > "$out"
for m in $(cat /w/out/gomods.txt); do
  MF=$(cd /repo/$m && gomodflag)
  (cd /repo/$m && go test $MF -json -vet=off -count=1 -timeout 25m ./...) >> "$out" 2>&1
done
python3 - "$out" <<'PY'
import sys,json
p=f=0; fails=[]
for l in open(sys.argv[1]):
    try: d=json.loads(l)
    except Exception: continue
    if d.get('Test') and d.get('Action') in ('pass','fail'):
        if d['Action']=='pass': p+=1
        else: f+=1; fails.append(d['Package']+'::'+d['Test'])
print('passed',p,'failed',f)
for x in fails: print('FAIL',x)
PY
