#!/bin/bash
# usage: detect.sh <seeded-id> <check-id> [tier] [extra vcheck args]   -> appends one line to seeded/<id>/detect.jsonl (or detect_extra.jsonl if NOTE is set)
sid=$1; chk=$2; tier=${3:-quick}; shift 3 2>/dev/null
t0=$(date +%s)
o=$(/verif/scripts/try_patch.sh /verif/seeded/$sid/patch.diff $chk --tier $tier "$@" 2>&1)
t1=$(date +%s)
rc=$(echo "$o" | grep -o '^exit=[0-9]*' | tail -1 | cut -d= -f2)
rules=$(echo "$o" | grep -o 'violation detail: rule=[A-Za-z0-9_.-]*' | sed 's/.*rule=//' | sort -u | paste -sd, -)
runs=$(echo "$o" | grep -o 'runs=[0-9]*' | head -1 | cut -d= -f2)
f=detect.jsonl; [ -n "$NOTE" ] && f=detect_extra.jsonl
note=""; [ -n "$NOTE" ] && note=",\"note\":\"$NOTE\""
echo "{\"id\":\"$sid\",\"check\":\"$chk\",\"tier\":\"$tier\",\"exit\":${rc:-2},\"rules\":\"$rules\",\"runs\":\"$runs\",\"wall_s\":$((t1-t0))$note}" | tee -a /verif/seeded/$sid/$f
[ "${rc:-2}" = 2 ] && echo "$o" | tail -15
exit 0
