#!/bin/bash
# usage: seed2_pipeline.sh <newid> <PROP> <srcdir> <demo-file> <dest-rel> <dir-rel> <regex> <mods(comma)> <checks(comma)>
id=$1; prop=$2; src=$3; demo=$4; dest=$5; ddir=$6; rx=$7; mods=$8; checks=$9
IFS=, read -ra M <<< "$mods"; IFS=, read -ra C <<< "$checks"
/verif/scripts/seed_confirm.sh $id $prop $src $demo $dest $ddir "$rx" -- "${M[@]}" 2>&1 | tail -n 1
for c in "${C[@]}"; do /verif/scripts/detect.sh $id $c quick 2>&1 | tail -n 1; done
