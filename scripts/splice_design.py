#!/usr/bin/env python3
"""Splices /verif/asbuilt.md (with the seeded-change table) into DESIGN.md as section 13."""
import subprocess, re
d = open('/verif/DESIGN.md').read()
a = open('/verif/asbuilt.md').read()
table = subprocess.run(['python3', '/verif/scripts/seeded_meta.py'], capture_output=True, text=True).stdout
a = a.replace('@@MATRIX@@', table.strip())
start = d.find('## 13. As built')
marker = '---------------------------------------------------------------------------------\n\n## Appendix A'
end = d.find(marker)
if start >= 0:
    d = d[:start] + a + '\n' + d[end:]
else:
    d = d[:end] + a + '\n' + d[end:]
open('/verif/DESIGN.md', 'w').write(d)
print('spliced', len(a), 'chars')
