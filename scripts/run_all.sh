#!/bin/bash
# usage: run_all.sh <tier> <seed> [budget_s] : runs every registered check on the current tree, one after the other,
# and prints one line per check (exit code, runs, wall). Stops nothing on failure.
tier=${1:-quick}; seed=${2:-1}; budget=$3
cd /verif
for id in $(./bin/vcheck list | awk '{print $1}'); do
  t0=$(date +%s)
  if [ -n "$budget" ]; then o=$(VERIF_SEED=$seed ./bin/vcheck run $id --tier $tier --budget $budget 2>&1); else o=$(VERIF_SEED=$seed ./bin/vcheck run $id --tier $tier 2>&1); fi
  rc=$?
  t1=$(date +%s)
  echo "$id tier=$tier seed=$seed exit=$rc wall=$((t1-t0))s $(echo "$o" | grep -o 'runs=[0-9]* distinct_nontrivial=[0-9]*' | head -1) known=$(echo "$o" | grep -c '^KNOWN-FINDING') $(echo "$o" | grep '^VIOLATION\|^note:\|^vcheck:' | head -3 | tr '\n' ' ' | cut -c1-300)"
done
